#!/venv/bin/python
"""Writes mutants/RESULTS.md from the JSON files of tools/mutation_audit.py runs."""
import json, os, sys
HERE = os.path.dirname(os.path.dirname(os.path.abspath(__file__)))
def main():
    rows = []
    for path in sys.argv[1:]:
        for r in json.load(open(path)):
            if not r["name"].startswith(("c1", "c2")):
                continue            # hand-written mutants only (seeds / benign: audit/*.json)
            for prop, c in r["checks"].items():
                rows.append((r["name"], prop, r["tests"], c["rc"], c["wall"], c["first"]))
    rows.sort()
    out = ["# Sensitivity audit results", "",
           "Produced by `tools/mutation_audit.py` (each patch applied to a scratch worktree of",
           "/repo HEAD outside /repo and /verif, repo tests run there, then the check of the",
           "targeted property run against that tree with `VERIF_REPO`; worktree removed).",
           "`tests` = result of the repository's own 81 tests with the patch (`None` = not run",
           "in this sweep); rc 1 = the check reported a VIOLATION (minimised, replayed in a fresh",
           "interpreter), rc 0 = not detected within the budget, rc 2 = harness failure.", "",
           "| patch | property | repo tests | check rc | wall s | first violation reported |",
           "|---|---|---|---|---|---|"]
    for name, prop, tests, rc, wall, first in rows:
        first = first.replace("|", "\\|").replace("\n", " ")[:160]
        out.append(f"| {name} | {prop} | {tests} | {rc} | {wall} | {first} |")
    det = sum(1 for r in rows if r[3] == 1)
    out += ["", f"Detected: {det} of {len(rows)}."]
    open(os.path.join(HERE, "mutants", "RESULTS.md"), "w").write("\n".join(out) + "\n")
    print(f"{det}/{len(rows)} detected")
if __name__ == "__main__":
    main()
