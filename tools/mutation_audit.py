#!/venv/bin/python
"""Sensitivity audit: apply each patch to a scratch worktree outside /repo and
/verif, require the repo's own tests to still pass there, then require the
targeted property's check to exit 1 against that tree (VERIF_REPO).  The
worktree is removed straight afterwards.  Not a registered command.

usage: tools/mutation_audit.py [--budget-s N] [--no-tests] [--tier quick] <diff|dir>...
"""
import argparse
import glob
import json
import os
import re
import subprocess
import sys
import tempfile
import time

HERE = os.path.dirname(os.path.dirname(os.path.abspath(__file__)))


def audit(diff, budget, run_tests, tier, props_override=None):
    head = open(diff).read()
    m = re.search(r"^property:\s*(\S+)", head, re.M)
    props = props_override or (m.group(1).split(",") if m else [])
    meta = os.path.join(os.path.dirname(diff), "meta.json")
    if not props and os.path.exists(meta):
        props = [json.load(open(meta))["property"]]
    name = os.path.splitext(os.path.basename(diff))[0]
    if name == "patch":
        name = os.path.basename(os.path.dirname(diff))
    res = {"name": name, "props": props, "tests": None, "checks": {}}
    td = tempfile.mkdtemp(prefix="verif_mut_")
    wt = os.path.join(td, "w")
    subprocess.run(["git", "-C", "/repo", "worktree", "add", "--detach", "-q", wt, "HEAD"],
                   check=True)
    try:
        ap = subprocess.run(["git", "-C", wt, "apply", "--whitespace=nowarn", diff],
                            capture_output=True, text=True)
        if ap.returncode != 0:
            res["tests"] = "patch-does-not-apply: " + ap.stderr.strip()[:200]
            return res
        if run_tests:
            t = subprocess.run(["/venv/bin/python", "-m", "pytest", "-q", "-x", "-p",
                                "no:cacheprovider", "--timeout=900"], cwd=wt,
                               capture_output=True, text=True,
                               env=dict(os.environ, PYTHONPATH=wt, PYTHONDONTWRITEBYTECODE="1"))
            tail = t.stdout.strip().splitlines()[-1] if t.stdout.strip() else ""
            res["tests"] = "pass" if t.returncode == 0 else "FAIL: " + tail
        for prop in props:
            t0 = time.time()
            env = dict(os.environ, VERIF_REPO=wt, VERIF_EVIDENCE_DIR=os.path.join(td, "ev"),
                       VERIF_REPLAY_DIR=os.path.join(td, "rp"))
            env.setdefault("VERIF_MIN_BUDGET", "20")
            env.setdefault("VERIF_MAX_REPORT", "1")
            c = subprocess.run([os.path.join(HERE, "check"), prop, "--tier", tier,
                                "--budget-s", str(budget), "--no-selfcheck"],
                               capture_output=True, text=True, env=env, cwd=HERE)
            line = [l for l in c.stdout.splitlines() if l.startswith("violation:")]
            res["checks"][prop] = {"rc": c.returncode, "wall": round(time.time() - t0, 1),
                                   "first": (line[0][:220] if line else
                                             c.stdout.strip().splitlines()[-1][:220]
                                             if c.stdout.strip() else c.stderr[-200:])}
    finally:
        subprocess.run(["git", "-C", "/repo", "worktree", "remove", "--force", wt], check=False)
        subprocess.run(["rm", "-rf", td])
    return res


def main():
    ap = argparse.ArgumentParser()
    ap.add_argument("paths", nargs="+")
    ap.add_argument("--budget-s", type=float, default=15)
    ap.add_argument("--no-tests", action="store_true")
    ap.add_argument("--tier", default="quick")
    ap.add_argument("--props")
    ap.add_argument("--json")
    a = ap.parse_args()
    diffs = []
    for p in a.paths:
        if os.path.isdir(p):
            diffs += sorted(glob.glob(os.path.join(p, "*.diff"))) + \
                sorted(glob.glob(os.path.join(p, "*", "patch.diff")))
        else:
            diffs.append(p)
    out = []
    for d in diffs:
        r = audit(os.path.abspath(d), a.budget_s, not a.no_tests, a.tier,
                  a.props.split(",") if a.props else None)
        out.append(r)
        status = ",".join(f"{p}:rc={c['rc']}" for p, c in r["checks"].items())
        print(f"{r['name']:45s} tests={r['tests']} {status}")
        for p, c in r["checks"].items():
            print(f"    {p} {c['wall']}s {c['first']}")
        sys.stdout.flush()
    if a.json:
        with open(a.json, "w") as f:
            json.dump(out, f, indent=1)


if __name__ == "__main__":
    main()
