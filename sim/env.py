"""Simulated process environment: file system, clock, text streams, raw pipes.

Every object here is owned by the simulator: it records what the code under
test did to it (the recorded history is what the oracles read) and injects the
faults a case lists.  Nothing here draws from a PRNG: fault positions are part
of the case.
"""

from __future__ import annotations

import builtins
import datetime as _real_datetime
import errno
import io
import os
import time as _real_time

_REAL_OPEN = builtins.open
_REAL_IO_OPEN = io.open
_REAL_ISATTY = os.isatty


# --------------------------------------------------------------------------
# file system
# --------------------------------------------------------------------------

class _SimTextWriter(io.TextIOBase):
    def __init__(self, fs, path, append=False):
        self.fs, self.path = fs, path
        self._closed = False

    def writable(self):
        return True

    def write(self, s):
        if self._closed:
            raise ValueError("I/O operation on closed file.")
        if not isinstance(s, str):
            raise TypeError("write() argument must be str")
        self.fs.log.append(("write", self.path, len(s)))
        self.fs.files[self.path] = self.fs.files.get(self.path, b"") + s.encode("utf-8")
        return len(s)

    def flush(self):
        pass

    def close(self):
        if not self._closed:
            self._closed = True
            self.fs.log.append(("close", self.path))
        super().close()


class _SimBinWriter(io.RawIOBase):
    def __init__(self, fs, path):
        self.fs, self.path = fs, path
        self._closed = False

    def writable(self):
        return True

    def write(self, b):
        if self._closed:
            raise ValueError("I/O operation on closed file.")
        b = bytes(b)
        self.fs.log.append(("write", self.path, len(b)))
        self.fs.files[self.path] = self.fs.files.get(self.path, b"") + b
        return len(b)

    def close(self):
        if not self._closed:
            self._closed = True
            self.fs.log.append(("close", self.path))
        super().close()


class SimFS:
    """dict path -> bytes, with an open/write/close log.  `claims(path)` decides
    which paths are simulated; everything else goes to the real file system
    (the interpreter itself opens files, e.g. lazy imports and tracebacks)."""

    def __init__(self, claims):
        self.files = {}
        self.log = []
        self.claims = claims
        self.missing_ok = False

    def open(self, file, mode="r", buffering=-1, encoding=None, errors=None,
             newline=None, closefd=True, opener=None):
        if isinstance(file, int) or not self.claims(os.fspath(file)):
            return _REAL_OPEN(file, mode, buffering, encoding, errors, newline,
                              closefd, opener)
        path = os.path.abspath(os.fspath(file))
        self.log.append(("open", path, mode))
        binary = "b" in mode
        if "r" in mode and "+" not in mode:
            if path not in self.files:
                raise FileNotFoundError(errno.ENOENT, "No such file or directory", path)
            data = self.files[path]
            if binary:
                return io.BytesIO(data)
            enc = "utf-8" if encoding in (None, "locale") else encoding
            return io.StringIO(data.decode(enc, errors or "strict"), newline=newline)
        if "w" in mode or "x" in mode:
            if "x" in mode and path in self.files:
                raise FileExistsError(errno.EEXIST, "File exists", path)
            self.files[path] = b""          # truncate takes effect at open
            return _SimBinWriter(self, path) if binary else _SimTextWriter(self, path)
        if "a" in mode:
            self.files.setdefault(path, b"")
            return _SimBinWriter(self, path) if binary else _SimTextWriter(self, path)
        raise io.UnsupportedOperation(f"SimFS: mode {mode!r} not simulated")

    def opened_for_write(self):
        return [e for e in self.log if e[0] == "open" and
                any(c in e[2] for c in "wax+")]

    def install(self):
        builtins.open = self.open
        io.open = self.open

    @staticmethod
    def uninstall():
        builtins.open = _REAL_OPEN
        io.open = _REAL_IO_OPEN


# --------------------------------------------------------------------------
# clock
# --------------------------------------------------------------------------

class SimClock:
    """Seconds since the epoch (UTC), advanced only by the case (jumps), and
    the simulated local zone as a fixed offset east of UTC in seconds."""

    def __init__(self, start, tz_offset=0):
        self.now = float(start)
        self.tz_offset = int(tz_offset)
        self.reads = 0

    def read(self):
        self.reads += 1
        return self.now

    def local(self):
        return self.read() + self.tz_offset


def make_fake_datetime_module(clock: SimClock):
    """A stand-in for the `datetime` module whose notion of *now* is the
    simulated clock and whose local zone is the simulated one.  Everything else
    is the real thing."""

    def _naive(ts):
        return _real_datetime.datetime(1970, 1, 1) + _real_datetime.timedelta(seconds=ts)

    class _DateTime(_real_datetime.datetime):
        @classmethod
        def _from_naive(cls, d):
            return cls(d.year, d.month, d.day, d.hour, d.minute, d.second, d.microsecond)

        @classmethod
        def now(cls, tz=None):
            if tz is None:
                return cls._from_naive(_naive(clock.local()))
            d = cls._from_naive(_naive(clock.read()))
            return d.replace(tzinfo=_real_datetime.timezone.utc).astimezone(tz)

        @classmethod
        def today(cls):
            return cls.now()

        @classmethod
        def utcnow(cls):
            return cls._from_naive(_naive(clock.read()))

        @classmethod
        def fromtimestamp(cls, ts, tz=None):
            if tz is None:
                return cls._from_naive(_naive(ts + clock.tz_offset))
            d = cls._from_naive(_naive(ts))
            return d.replace(tzinfo=_real_datetime.timezone.utc).astimezone(tz)

        @classmethod
        def utcfromtimestamp(cls, ts):
            return cls._from_naive(_naive(ts))

    class _Date(_real_datetime.date):
        @classmethod
        def today(cls):
            d = _naive(clock.local())
            return cls(d.year, d.month, d.day)

        @classmethod
        def fromtimestamp(cls, ts):
            d = _naive(ts + clock.tz_offset)
            return cls(d.year, d.month, d.day)

    class _Mod:
        datetime = _DateTime
        date = _Date

        def __getattr__(self, name):
            return getattr(_real_datetime, name)

    return _Mod()


class ClockSeam:
    """Everything through which code can learn the time, owned by the simulator:
    module globals of the code under test that *are* the real datetime module, the
    datetime / date classes or time functions (under whatever name they were
    imported), `sys.modules['datetime']` for imports made at call time, and the
    functions of module `time`."""

    def __init__(self, clock, module):
        self.clock, self.module = clock, module
        self.fake_dt = make_fake_datetime_module(clock)
        self.fake_time = FakeTime(clock)
        self.saved = {}
        self.saved_sysmod = None

    def install(self):
        import sys
        self.fake_time.install()
        fakes = self.fake_time.fakes
        real = {id(_real_datetime): self.fake_dt,
                id(_real_datetime.datetime): self.fake_dt.datetime,
                id(_real_datetime.date): self.fake_dt.date}
        for name, f in fakes.items():
            real[id(self.fake_time._saved[name])] = f
        for k, v in list(vars(self.module).items()):
            r = real.get(id(v))
            if r is not None and not k.startswith("__"):
                self.saved[k] = v
                setattr(self.module, k, r)
        self.saved_sysmod = sys.modules.get("datetime")
        sys.modules["datetime"] = self.fake_dt

    def uninstall(self):
        import sys
        for k, v in self.saved.items():
            setattr(self.module, k, v)
        self.saved = {}
        if self.saved_sysmod is not None:
            sys.modules["datetime"] = self.saved_sysmod
        self.fake_time.uninstall()


class FakeTime:
    """Patch for module `time`: time(), localtime(), gmtime(), strftime() read
    the simulated clock (simulated zone is UTC)."""

    def __init__(self, clock):
        self.clock = clock
        self._saved = {}

    def install(self):
        c = self.clock
        rt = _real_time
        self._saved = {n: getattr(rt, n) for n in ("time", "localtime", "gmtime", "strftime")}
        for n in ("time_ns",):
            if hasattr(rt, n):
                self._saved[n] = getattr(rt, n)
        real_gmtime, real_strftime = rt.gmtime, rt.strftime
        self.fakes = {
            "time": lambda: c.read(),
            "gmtime": lambda secs=None: real_gmtime(c.read() if secs is None else secs),
            "localtime": lambda secs=None: real_gmtime(
                (c.read() if secs is None else secs) + c.tz_offset),
            "strftime": lambda fmt, t=None: real_strftime(
                fmt, real_gmtime(c.local()) if t is None else t),
        }
        if "time_ns" in self._saved:
            self.fakes["time_ns"] = lambda: int(c.read() * 1_000_000_000)
        for n, f in self.fakes.items():
            setattr(rt, n, f)

    def uninstall(self):
        for n, f in self._saved.items():
            setattr(_real_time, n, f)
        self._saved = {}


# --------------------------------------------------------------------------
# text stream handed to print_ascii / print_tty (and used as sys.stdout)
# --------------------------------------------------------------------------

class SimStream:
    """Caller-supplied text stream.  Records every call; `fail_write_at=k`
    makes the k-th write (0-based) raise OSError(errno) *before* accepting it."""

    def __init__(self, tty=True, fail_write_at=None, fail_flush=False,
                 err=errno.EPIPE):
        self.tty = tty
        self.fail_write_at = fail_write_at
        self.fail_flush = fail_flush
        self.err = err
        self.writes = []
        self.calls = []          # ("isatty"|"write"|"flush")
        self.faults_fired = []
        self.encoding = "utf-8"

    def reset(self, tty=True, fail_write_at=None, fail_flush=False, err=errno.EPIPE):
        """The same stream object, re-used by a later call (a terminal whose
        tty-ness or health changed in between)."""
        self.tty, self.fail_write_at, self.fail_flush, self.err = \
            tty, fail_write_at, fail_flush, err
        self.writes, self.calls, self.faults_fired = [], [], []

    def isatty(self):
        self.calls.append("isatty")
        return self.tty

    def writable(self):
        return True

    def write(self, s):
        if self.fail_write_at is not None and len(self.writes) == self.fail_write_at:
            self.fail_write_at = None
            self.faults_fired.append("write")
            self.calls.append("write!")
            raise OSError(self.err, os.strerror(self.err))
        self.calls.append("write")
        self.writes.append(s)
        return len(s)

    def flush(self):
        if self.fail_flush:
            self.fail_flush = False
            self.faults_fired.append("flush")
            self.calls.append("flush!")
            raise OSError(self.err, os.strerror(self.err))
        self.calls.append("flush")

    def text(self):
        return "".join(self.writes)


class SimByteSink:
    """Caller-supplied binary stream for image.save().  Same fault plan."""

    def __init__(self, fail_write_at=None, err=errno.ENOSPC, seekable=True):
        self.buf = bytearray()
        self.pos = 0
        self.nwrites = 0
        self.fail_write_at = fail_write_at
        self.err = err
        self.faults_fired = []
        self._seekable = seekable
        self.closed = False

    def write(self, b):
        if self.fail_write_at is not None and self.nwrites == self.fail_write_at:
            self.fail_write_at = None
            self.faults_fired.append("write")
            raise OSError(self.err, os.strerror(self.err))
        self.nwrites += 1
        b = bytes(b)
        end = self.pos + len(b)
        if self.pos > len(self.buf):
            self.buf.extend(b"\0" * (self.pos - len(self.buf)))
        self.buf[self.pos:end] = b
        self.pos = end
        return len(b)

    def flush(self):
        pass

    def seekable(self):
        return self._seekable

    def seek(self, off, whence=0):
        if not self._seekable:
            raise io.UnsupportedOperation("seek")
        if whence == 0:
            self.pos = off
        elif whence == 1:
            self.pos += off
        else:
            self.pos = len(self.buf) + off
        return self.pos

    def tell(self):
        return self.pos

    def getvalue(self):
        return bytes(self.buf)


# --------------------------------------------------------------------------
# raw pipe ends for the CLI simulation (placed under real io.Buffered*)
# --------------------------------------------------------------------------

class SimRawIn(io.RawIOBase):
    """Read end of a pipe that delivers `data` in the chunk sizes of
    `chunk_plan` (cyclic); a real io.BufferedReader on top runs the stdlib's
    short-read loops for real."""

    def __init__(self, data: bytes, chunk_plan):
        self.data = data
        self.off = 0
        self.plan = list(chunk_plan) or [1 << 30]
        self.nreads = 0
        self.short_reads = 0
        self.eof_seen = False

    def readable(self):
        return True

    def fileno(self):
        return 0

    def isatty(self):
        return False

    def readinto(self, b):
        want = len(b)
        if self.off >= len(self.data):
            self.eof_seen = True
            self.nreads += 1
            return 0
        n = min(want, self.plan[self.nreads % len(self.plan)], len(self.data) - self.off)
        n = max(n, 1)
        if n < min(want, len(self.data) - self.off):
            self.short_reads += 1
        b[:n] = self.data[self.off:self.off + n]
        self.off += n
        self.nreads += 1
        return n


class SimRawOut(io.RawIOBase):
    """Write end of a pipe / tty: records the bytes, optional short writes."""

    def __init__(self, fd=1, max_write=None):
        self.fd = fd
        self.buf = bytearray()
        self.nwrites = 0
        self.max_write = max_write
        self.short_writes = 0

    def writable(self):
        return True

    def fileno(self):
        return self.fd

    def write(self, b):
        b = bytes(b)
        n = len(b)
        if self.max_write is not None and n > self.max_write:
            n = self.max_write
            self.short_writes += 1
        self.buf += b[:n]
        self.nwrites += 1
        return n


class SimStdin:
    """sys.stdin stand-in: .buffer is a real BufferedReader over SimRawIn;
    text-mode reads decode strictly as UTF-8 (as a real stdin would)."""

    def __init__(self, data: bytes, chunk_plan, buffer_size=8192, tty=False):
        self.raw = SimRawIn(data, chunk_plan)
        self.tty = tty
        self.raw.isatty = lambda: tty
        self.buffer = io.BufferedReader(self.raw, buffer_size=buffer_size)
        self._text = io.TextIOWrapper(self.buffer, encoding="utf-8", errors="strict",
                                      write_through=True)
        self.encoding = "utf-8"
        self.text_reads = 0

    def fileno(self):
        return 0

    def isatty(self):
        return self.tty

    def read(self, n=-1):
        self.text_reads += 1
        return self._text.read(n)

    def readline(self, n=-1):
        self.text_reads += 1
        return self._text.readline(n)

    def __iter__(self):
        return iter(self._text)

    def detach_text(self):
        # keep the TextIOWrapper from closing the buffer at GC time
        try:
            self._text.detach()
        except Exception:
            pass


class SimStdout:
    """sys.stdout stand-in with a text layer and a .buffer, both landing in one
    SimRawOut in program order (text layer is write-through)."""

    def __init__(self, tty: bool, fd=1, max_write=None):
        self.tty = tty
        self.raw = SimRawOut(fd, max_write=max_write)
        self.buffer = io.BufferedWriter(self.raw, buffer_size=8192)
        self.encoding = "utf-8"
        self.errors = "strict"
        self.text_writes = 0
        self.flushes = 0

    def fileno(self):
        return self.raw.fd

    def isatty(self):
        return self.tty

    def writable(self):
        return True

    def write(self, s):
        if not isinstance(s, str):
            raise TypeError("write() argument must be str, not %s" % type(s).__name__)
        self.text_writes += 1
        self.buffer.write(s.encode(self.encoding, self.errors))
        return len(s)

    def flush(self):
        self.flushes += 1
        self.buffer.flush()

    def value(self) -> bytes:
        self.buffer.flush()
        return bytes(self.raw.buf)


class FdTable:
    """Simulated answer for os.isatty(fd)."""

    def __init__(self, ttys):
        self.ttys = dict(ttys)
        self.queries = []

    def isatty(self, fd):
        self.queries.append(fd)
        if fd in self.ttys:
            return self.ttys[fd]
        return _REAL_ISATTY(fd)

    def install(self):
        os.isatty = self.isatty

    @staticmethod
    def uninstall():
        os.isatty = _REAL_ISATTY
