#!/venv/bin/python
"""Regenerates MANIFEST.json from one table (keeps it valid at all times)."""
import json, os, sys
HERE = os.path.dirname(os.path.dirname(os.path.abspath(__file__)))

NA_PURE = {
 "C01": "encode->decode round trip is a pure function of payload x (version, level, mask, optimize); the statement has no schedule, clock, fault, environment or call history for a simulator to control",
 "C02": "Reed-Solomon codeword membership and ISO Table 9 block structure are arithmetic over block contents; no dynamics to simulate (corrupting a static symbol would only test the checker's own decoder)",
 "C03": "which exception a compile raises is a pure function of payload size and settings; continuing a history after the failure is covered under C11",
 "C04": "BCH format/version bits are a finite pure table (4 x 8 x 40); no dynamics",
 "C05": "function-pattern geometry is a pure function of the version (plus data independence); no dynamics",
 "C06": "bit-stream layout is a pure function of segments x version class; no dynamics",
 "C07": "the fitted version is a pure function of (segments, level, starting version); stickiness of the starting version across compiles is what C11 covers",
 "C08": "lost_point(matrix) is a pure function of a matrix",
 "C09": "mask choice is a pure function of the eight candidate matrices",
 "C10": "segmentation of one add_data call is a pure function of (bytes, threshold, mode)",
 "C12": "raster pixels / PNG bytes are a pure function of (matrix, box, border, colours); the stream it is saved to has no behaviour the statement depends on",
 "C13": "the SVG document is a pure function of (matrix, box, border, factory, drawer); its one impure input, the process-wide XML namespace registry, is covered under C19",
 "C14": "styled pixels are a pure function of (matrix, drawer, colour mask, sizes)",
}

CHECKS = {}   # filled by register()

def register(pid, engine, technique, text, note, design_ref):
    CHECKS[pid] = {
        "property_id": pid,
        "quick_cmd": f"./check {pid} --tier quick",
        "thorough_cmd": f"./check {pid} --tier thorough",
        "evidence_file": f"evidence/{pid}.json",
        "replay_cmd_template": f"./check {pid} --replay {{path}}",
        "engine": engine,
        "level_claimed": {"category": "exploration", "text": text, "design_ref": design_ref},
        "level_note": note,
        "technique": technique,
    }

register("C20", "relsim",
  "deterministic simulation: seeded histories of update_manpage() (loaded from a private copy of the tree's release.py) over an in-memory file system with a real-scratch-directory arbiter and a jumping simulated clock with a simulated local zone, refined step by step against a 20-line reference model",
  "Seeded search over (page, invocation history, clock evolution): every invocation's resulting page bytes are compared with an independent reference model and the simulated file system's open log proves no-op cases wrote nothing. Sampling, not enumeration: a clean batch is evidence, not proof; that is the right level because the space (all pages x all version strings x all clock evolutions) is unbounded and the function is 30 lines whose every branch the generator reaches thousands of times per second.",
  "Trusts: the reference model in sim/relsim.py (model_update); SimFS standing in for open() on LF/ASCII pages, with every violation re-judged on a real scratch directory (and a fall-back to it when the code reaches the file system without open()); the clock seam (identity scan of the module's names + sys.modules['datetime'] + module time); C locale for month names. Torn writes are not injected (no atomicity is promised).",
  "DESIGN.md 4.3")

PENDING = {}

def main():
    claimed = [CHECKS[k] for k in sorted(CHECKS)]
    na = [{"property_id": k, "reason": v} for k, v in sorted(NA_PURE.items())]
    for k, v in sorted(PENDING.items()):
        if k not in CHECKS:
            na.append({"property_id": k, "reason": v})
    na.sort(key=lambda e: e["property_id"])
    engines = {}
    for c in claimed:
        engines.setdefault(c["engine"], []).append(c["property_id"])
    KIND = {
      "relsim": "deterministic simulation of file + clock (SimFS, SimClock) around release.update_manpage, reference-model refinement",
      "histsim": "deterministic simulation of object call histories with injected stream faults and process-cache states, refined against a fresh object in a pristine forked process",
      "clisim": "deterministic simulation of the qr command's process environment (argv, chunked binary stdin, tty/pipe stdout, in-memory --output), outputs decoded by an independent ISO 18004 reader",
      "threadsim": "deterministic thread-schedule simulation: real caller threads baton-passed at sys.settrace line/opcode events and shared-dict accesses under a seeded scheduler, compared with solo runs in a pristine process",
    }
    doc = {
      "version": 1,
      "setup_cmd": "/venv/bin/python -m compileall -q sim >/dev/null 2>&1; /venv/bin/python -c \"import sys; sys.path.insert(0,'/repo'); import qrcode, PIL, png; print('setup ok', qrcode.__file__)\"",
      "hooks": {
        "guard": "QRCODE_VERIF",
        "enable": "no hook exists: every seam the simulators need (stream arguments, sys.stdin/stdout, os.isatty, builtins.open, module-level datetime, sys.settrace, rebinding of module-global dicts) is reachable from outside; QRCODE_VERIF is reserved and unused",
        "baseline_off_cmd": "cd /repo && /venv/bin/python -m pytest -ra -q -p no:cacheprovider --timeout=900 --continue-on-collection-errors",
        "source_commits": [],
        "add_only": True,
      },
      "engines": [{"name": n, "path": f"sim/{n}.py", "serves_properties": sorted(p), "kind_free_text": KIND[n]} for n, p in sorted(engines.items())],
      "checks": claimed,
      "notes": "All checks: ./check <id> [--tier quick|thorough] [--replay file]; VERIF_SEED selects the master seed. Exit 0 held / only known findings, 1 VIOLATION (minimised, replayed in a fresh interpreter), 2 harness failure. See DESIGN.md.",
      "not_applicable": na,
    }
    with open(os.path.join(HERE, "MANIFEST.json"), "w") as f:
        json.dump(doc, f, indent=1)
        f.write("\n")

if __name__ == "__main__":
    sys.path.insert(0, HERE)
    try:
        import tools.manifest_table as t   # optional extension point
        t.extend(register, PENDING)
    except ImportError:
        pass
    main()
