"""threadsim - C19: independent QRCode objects used from several caller threads
under a seeded, fully controlled schedule.

Real ``threading.Thread``s run the real library; exactly one of them holds the
*baton* at any time.  Pre-emption points are (a) every ``line`` event
(``sys.settrace``) in frames of the library and of stdlib
``xml/etree/ElementTree.py``, (b) ``opcode`` events inside the few functions
that touch process-wide state, (c) every access to the two process-wide
dictionaries, which are rebound to recording subclasses.  The scheduler - not
the OS, not the GIL - decides at which of these points the running thread
yields and who runs next.

An execution is fully described by ``(priority order, pre-emption list)``.
Seeded strategies only *produce* such a description; replay executes a stored
one and never touches a PRNG.  Pre-emption identifiers:

    ["step", tid, n]          thread tid yields right before its n-th point
    ["loc", tid, file, line, k]  ... right before executing file:line the k-th time
    ["acc", tid, j, when]     ... right before/after its j-th shared-dict access
    ["stepg", g]              whoever runs yields at global point g (PCT)

The oracle compares what each thread observed with what the same program
produces alone in a pristine process, and afterwards runs canary programs
sequentially in the aged process.
"""

from __future__ import annotations

import io
import os
import random
import sys
import threading

from . import core
from .core import Violation, Stats, EventLog, enc_payload, dec_payload
from .forkserver import ForkServer
from .histsim import pack, exc_sig, factory_class, resolve_image_kwargs, STYLED_DRAWERS, \
    STYLED_MASKS
from . import traced

PROP = "C19"
WATCHDOG_S = 900
MAX_POINTS = 12_000_000
OPCODE_FUNCS = {"makeImpl", "register_namespace"}
OPCODE_INIT_FILES = ("qrcode/image/svg.py",)


# --------------------------------------------------------------------------
# programs (what one caller thread does with its own objects)
# --------------------------------------------------------------------------

def run_program(prog, yield_hook=None):
    """Execute a thread program on fresh objects nobody else touches.
    -> list of ("ok", value) | ("exc", sig) per step."""
    import qrcode
    from .env import SimStream
    out = []
    qr = None
    for step in prog:
        kind = step[0]
        try:
            if kind == "new":
                kw = dict(step[1])
                qr = qrcode.QRCode(**kw)
                res = None
            elif kind == "add":
                qr.add_data(dec_payload(step[1]), optimize=step[2])
                res = None
            elif kind == "make":
                qr.make(fit=step[1])
                res = (pack(qr.modules), qr.version)
            elif kind == "get_matrix":
                res = pack(qr.get_matrix())
            elif kind == "print_ascii":
                s = SimStream(tty=True)
                qr.print_ascii(out=s, invert=step[1] == "invert", tty=step[1] == "tty")
                res = s.text()
            elif kind == "shortcut":
                img = qrcode.make(dec_payload(step[1]), **dict(step[2]))
                b = io.BytesIO()
                img.save(b)
                res = b.getvalue()
            elif kind == "print_tty":
                s = SimStream(tty=True)
                qr.print_tty(out=s)
                res = s.text()
            elif kind == "image":
                kw = resolve_image_kwargs(step[1], dict(step[3]) if len(step) > 3 else {})
                img = qr.make_image(factory_class(step[1]), **kw)
                if step[2] == "to_string" and hasattr(img, "to_string"):
                    res = img.to_string()
                else:
                    b = io.BytesIO()
                    img.save(b)
                    res = b.getvalue()
            else:
                raise core.HarnessError(f"unknown program step {step!r}")
            out.append(("ok", res))
        except core.HarnessError:
            raise
        except Exception as e:  # noqa
            out.append(("exc", exc_sig(e)))
    return out


# --------------------------------------------------------------------------
# recording dictionaries for the process-wide state
# --------------------------------------------------------------------------

def install_traced_dicts():
    """Rebind every process-wide container of the library (module-level and
    class-level dict / list / set, mutable default arguments) and ElementTree's
    namespace map to recording subclasses (sim/traced.py).  Returns their names."""
    from qrcode.compat.etree import ET
    return traced.install("qrcode", extra=[(ET, "_namespace_map",
                                            "ElementTree._namespace_map")])


def module_globals_digest():
    """Probe: digest of every module-level mutable container of qrcode.* (and
    the XML namespace map).  Never a violation by itself."""
    out = {}
    for name, mod in sorted(sys.modules.items()):
        if not (name == "qrcode" or name.startswith("qrcode.")) or mod is None:
            continue
        if name.startswith("qrcode.tests"):
            continue
        for k, v in sorted(vars(mod).items()):
            if isinstance(v, (dict, list, set)) and not k.startswith("__"):
                try:
                    out[f"{name}.{k}"] = core.short_hash(repr(sorted(v.items(), key=repr))
                                                         if isinstance(v, dict) else repr(v))
                except Exception:  # noqa
                    out[f"{name}.{k}"] = "unhashable"
    try:
        from qrcode.compat.etree import ET
        out["ET._namespace_map"] = core.short_hash(repr(sorted(ET._namespace_map.items())))
    except Exception:  # noqa
        pass
    return out


# --------------------------------------------------------------------------
# the scheduler
# --------------------------------------------------------------------------

INF = 1 << 60

import _thread  # noqa: E402

_REAL_ALLOCATE = _thread.allocate_lock      # captured before any patching
_ACTIVE = [None]                            # the scheduler of the run in progress


class _Gate:
    """Auto-reset event on one raw lock (the scheduler's own primitives must
    not go through the patched threading.Lock)."""

    def __init__(self):
        self.l = _REAL_ALLOCATE()
        self.l.acquire()

    def wait(self, timeout=None):
        if timeout is None:
            self.l.acquire()
            return True
        return self.l.acquire(True, timeout)

    def set(self):
        try:
            self.l.release()
        except RuntimeError:
            pass

    def clear(self):
        self.l.acquire(False)


class SimDeadlock(Exception):
    """Raised inside a simulated thread when every unfinished thread waits for
    a lock: a genuine deadlock of the code under test under this schedule."""


class SimLock:
    """Stand-in for threading.Lock, installed before the library is imported.
    Outside a simulated run - and for any thread that does not hold the baton -
    it is a plain lock.  When the baton holder finds it taken, it hands the baton
    on instead of blocking (the holder of the lock is parked and could never
    release it otherwise), and retries when it is scheduled again."""

    def __init__(self):
        self._l = _REAL_ALLOCATE()

    def acquire(self, blocking=True, timeout=-1):
        s = _ACTIVE[0]
        if s is not None and s.active:
            cur = s.current
            if cur is not None and s.idents[cur] == _thread.get_ident():
                if self._l.acquire(False):
                    return True
                if not blocking:
                    return False
                return s.lock_wait(cur, self)
        return self._l.acquire(blocking, timeout)

    def release(self):
        self._l.release()

    def locked(self):
        return self._l.locked()

    def _at_fork_reinit(self):
        self._l = _REAL_ALLOCATE()

    __enter__ = acquire

    def __exit__(self, *a):
        self.release()


class SimRLock:
    def __init__(self):
        self._lock = SimLock()
        self._owner = None
        self._count = 0

    def acquire(self, blocking=True, timeout=-1):
        me = _thread.get_ident()
        if self._owner == me:
            self._count += 1
            return True
        ok = self._lock.acquire(blocking, timeout)
        if ok:
            self._owner = me
            self._count = 1
        return ok

    __enter__ = acquire

    def release(self):
        if self._owner != _thread.get_ident():
            raise RuntimeError("cannot release un-acquired lock")
        self._count -= 1
        if not self._count:
            self._owner = None
            self._lock.release()

    def __exit__(self, *a):
        self.release()

    def locked(self):
        return self._lock.locked()

    # threading.Condition support
    def _is_owned(self):
        return self._owner == _thread.get_ident()

    def _release_save(self):
        state = (self._count, self._owner)
        self._count, self._owner = 0, None
        self._lock.release()
        return state

    def _acquire_restore(self, state):
        self._lock.acquire()
        self._count, self._owner = state

    def _at_fork_reinit(self):
        self._lock._at_fork_reinit()
        self._owner, self._count = None, 0


def install_sim_locks():
    """threading.Lock / threading.RLock -> cooperative stand-ins.  Must run
    before the library under test is imported (module-level locks)."""
    if threading.Lock is not SimLock:
        threading.Lock = SimLock
        threading.RLock = SimRLock


class Sched:
    """Baton-passing scheduler.  Per-thread hot state lives in S[tid] =
    [points seen, next point number that needs the slow path, target line or -1,
    target file suffix, occurrences of the target still to skip]."""

    def __init__(self, n, prio, preemptions, strategy=None, rng=None, oplines=None):
        self.n = n
        # (tid, file suffix, line): frames containing that line get opcode events
        self.oplines = [[(o[1], o[2]) for o in (oplines or []) if o[0] == t]
                        for t in range(n)]
        self.prio = list(prio)
        self.events = [_Gate() for _ in range(n)]
        self.all_done = _Gate()
        self.idents = [None] * n        # thread idents, set by each body
        self.blocked = {}               # tid -> SimLock it waits for
        self.deadlocked = False
        self.lock_waits = 0
        self.done = [False] * n
        self.S = [[0, INF, -1, "", 0] for _ in range(n)]
        self.lacc = [0] * n             # shared accesses by each thread
        self.current = None
        self.active = False
        self.switch_log = []            # preemptions that actually happened
        self.access_log = []            # (tid, dict, kind, key)
        self.windows = 0                # switches that happened at a shared access
        self.sub_line_targets = 0
        self.capped = False
        self.strategy = strategy or {"kind": "explicit"}
        self.rng = rng
        self.threads = []
        self.step_trig = [[] for _ in range(n)]     # sorted local point numbers
        self.loc_queue = [[] for _ in range(n)]
        self.loc_sub = [0] * n          # opcode events to let pass after reaching the line
        self.acc_trig = [dict() for _ in range(n)]   # j -> when
        self.gtrig = []                               # sorted global point numbers
        for p in preemptions:
            if p[0] == "step":
                self.step_trig[p[1]].append(p[2])
            elif p[0] == "loc":
                self.loc_queue[p[1]].append((p[2], p[3], p[4], p[5] if len(p) > 5 else 0))
            elif p[0] == "acc":
                self.acc_trig[p[1]][p[2]] = p[3] if len(p) > 3 else "before"
            elif p[0] == "stepg":
                self.gtrig.append(p[1])
        self.gtrig.sort()
        for t in range(n):
            self.step_trig[t].sort()
            self._next_loc(t)
        self.walk_p = self.strategy.get("p") if self.strategy["kind"] == "walk" else None
        self.walk_next = self._geom(0) if self.walk_p else INF
        self.access_p = self.strategy.get("p_access", 0.0) if \
            self.strategy["kind"] in ("access", "hot") else 0.0
        self.hot_p = self.strategy.get("p_hot", 0.0) if self.strategy["kind"] == "hot" else 0.0
        self.hot = {}
        if self.hot_p:
            for fn, ln in static_hot_lines():
                self.hot.setdefault(ln, []).append(fn)
            for st_ in self.S:
                st_.append(frozenset(self.hot))
        self.hot_hits = 0

    def gstep(self):
        return sum(s[0] for s in self.S)

    def _geom(self, g):
        import math
        u = self.rng.random()
        return g + 1 + int(math.log(max(u, 1e-12)) / math.log(1.0 - self.walk_p))

    def _next_loc(self, t):
        s = self.S[t]
        if self.loc_queue[t]:
            fn, ln, k, j = self.loc_queue[t].pop(0)
            s[2], s[3], s[4] = ln, fn, k
            self.loc_sub[t] = j
        else:
            s[2], s[3], s[4] = -1, "", 0
            self.loc_sub[t] = 0

    def _arm(self, t):
        """Thread t is about to run: compute the next point number at which
        its hot path must call slow()."""
        s = self.S[t]
        nxt = INF
        st = self.step_trig[t]
        while st and st[0] <= s[0]:
            st.pop(0)
        if st:
            nxt = st[0]
        g = self.gstep()
        gt = self.gtrig
        while gt and gt[0] <= g:
            gt.pop(0)
        if gt:
            nxt = min(nxt, s[0] + (gt[0] - g))
        if self.walk_next < INF:
            nxt = min(nxt, s[0] + max(self.walk_next - g, 1))
        s[1] = nxt

    # ---- baton ------------------------------------------------------------
    def pick(self):
        for t in self.prio:
            if not self.done[t]:
                lk = self.blocked.get(t)
                if lk is None or not lk.locked():
                    return t
        return None

    def lock_wait(self, me, lock):
        """The baton holder `me` found `lock` taken.  Hand the baton on (a forced
        switch: a deterministic consequence of the schedule, not recorded as a
        pre-emption) and retry whenever scheduled again."""
        self.lock_waits += 1
        while True:
            if self.deadlocked:
                self.blocked.pop(me, None)
                raise SimDeadlock("every unfinished thread waits for a lock")
            if lock._l.acquire(False):
                self.blocked.pop(me, None)
                return True
            self.blocked[me] = lock
            self.prio.remove(me)
            self.prio.append(me)
            nxt = self.pick()
            if nxt is None or nxt == me:
                self.blocked.pop(me, None)
                raise SimDeadlock("every unfinished thread waits for a lock")
            self.current = nxt
            ev = self.events[me]
            ev.clear()
            self._arm(nxt)
            self.events[nxt].set()
            ev.wait()
            self._arm(me)

    def _yield_to_next(self, me, why):
        """Called by the running thread `me`: drop its priority, hand over."""
        self.prio.remove(me)
        self.prio.append(me)
        nxt = self.pick()
        if nxt == me or nxt is None:
            self._arm(me)
            return
        self.switch_log.append(why)
        self.current = nxt
        ev = self.events[me]
        ev.clear()
        self._arm(nxt)
        self.events[nxt].set()
        ev.wait()
        self._arm(me)

    def finish(self, me):
        self.done[me] = True
        nxt = self.pick()
        if nxt is None and not all(self.done):
            # the remaining threads all wait for locks nobody will release
            self.deadlocked = True
            nxt = next(t for t in self.prio if not self.done[t])
        if nxt is None:
            self.active = False
            self.current = None
            self.all_done.set()
        else:
            self.current = nxt
            self._arm(nxt)
            self.events[nxt].set()

    # ---- points -----------------------------------------------------------
    def slow(self, me, fn, ln):
        """Hot path asked for attention: a trigger is due or the target line
        (fn:ln) was reached."""
        s = self.S[me]
        ls = s[0]
        if self.hot_p and ln in self.hot and any(fn.endswith(h) for h in self.hot[ln]):
            # a line that writes (or reads) a process-wide scalar: an access point
            self.hot_hits += 1
            if self.rng.random() < self.hot_p:
                self._yield_to_next(me, ["step", me, ls])
                return
        if s[2] == ln and fn.endswith(s[3]):
            s[4] -= 1
            if s[4] <= 0:
                sub = self.loc_sub[me]
                self._next_loc(me)
                if sub > 0:
                    # sub-line target: let `sub` more points (opcode events of this
                    # function) pass, then yield in the middle of the line
                    import bisect
                    bisect.insort(self.step_trig[me], ls + sub)
                    self.sub_line_targets += 1
                    self._arm(me)
                    return
                self._yield_to_next(me, ["step", me, ls])
                return
        st = self.step_trig[me]
        if st and st[0] == ls:
            st.pop(0)
            self._yield_to_next(me, ["step", me, ls])
            return
        g = self.gstep()
        if g >= MAX_POINTS:
            # an unexpectedly long run: no further seeded pre-emptions (the threads simply
            # run on in priority order); cost is bounded by design in the generator
            self.walk_next = INF
            self.capped = True
            self._arm(me)
            return
        if self.gtrig and self.gtrig[0] <= g:
            self.gtrig.pop(0)
            self._yield_to_next(me, ["step", me, ls])
            return
        if g >= self.walk_next:
            self.walk_next = self._geom(g)
            self._yield_to_next(me, ["step", me, ls])
            return
        self._arm(me)

    def access(self, container, kind, key):
        if not self.active:
            return
        dname = container._name
        me = self.current
        if me is None or self.idents[me] != _thread.get_ident():
            return      # e.g. the main thread during bookkeeping
        j = self.lacc[me] = self.lacc[me] + 1
        self.access_log.append((me, dname, kind, repr(key)))
        when = self.acc_trig[me].get(j)
        if when == "before":
            self.windows += 1
            self._yield_to_next(me, ["acc", me, j, "before"])
        elif when is None and self.access_p and self.rng.random() < self.access_p:
            if self.rng.random() < 0.5:
                self.windows += 1
                self._yield_to_next(me, ["acc", me, j, "before"])
            else:
                self.acc_trig[me][j] = "after"

    def after_access(self, container=None):
        if not self.active:
            return
        me = self.current
        if me is None or self.idents[me] != _thread.get_ident():
            return
        j = self.lacc[me]
        if self.acc_trig[me].get(j) == "after":
            del self.acc_trig[me][j]
            self.windows += 1
            self._yield_to_next(me, ["acc", me, j, "after"])


def make_tracer(sched, tid, roots, et_file, profile=None):
    """-> the sys.settrace function for thread `tid` (closures, no attribute
    look-ups on the hot path)."""
    cache = {}
    S = sched.S[tid]
    slow = sched.slow
    opcode_funcs = OPCODE_FUNCS
    init_files = OPCODE_INIT_FILES
    oplines = sched.oplines[tid]
    codecache = {}

    def wants_opcodes(code):
        r = codecache.get(code)
        if r is None:
            r = False
            for suf, ln in oplines:
                if code.co_filename.endswith(suf) and \
                        any(l == ln for _, _, l in code.co_lines()):
                    r = True
                    break
            codecache[code] = r
        return r

    if profile is None and len(S) > 5:
        hotset = S[5]

        def local_trace(frame, event, arg):
            if event == "line" or event == "opcode":
                S[0] = c = S[0] + 1
                ln = frame.f_lineno
                if c >= S[1] or (S[2] == ln and frame.f_code.co_filename.endswith(S[3])) \
                        or (event == "line" and ln in hotset):
                    slow(tid, frame.f_code.co_filename, ln if event == "line" else -2)
            return local_trace
    elif profile is None:
        def local_trace(frame, event, arg):
            if event == "line" or event == "opcode":
                S[0] = c = S[0] + 1
                if c >= S[1] or (S[2] == frame.f_lineno and
                                 frame.f_code.co_filename.endswith(S[3])):
                    slow(tid, frame.f_code.co_filename,
                         frame.f_lineno if event == "line" else -2)
            return local_trace
    else:
        def local_trace(frame, event, arg):
            if event == "line" or event == "opcode":
                S[0] += 1
                if event == "line":
                    key = (frame.f_code.co_filename, frame.f_lineno)
                    profile[key] = profile.get(key, 0) + 1
            return local_trace

    def global_trace(frame, event, arg):
        code = frame.f_code
        fn = code.co_filename
        flag = cache.get(fn)
        if flag is None:
            flag = cache[fn] = bool(fn == et_file or any(fn.startswith(r) for r in roots))
        if not flag:
            return None
        if code.co_name in opcode_funcs or \
                (code.co_name == "__init__" and fn.endswith(init_files)) or \
                (oplines and wants_opcodes(code)):
            frame.f_trace_opcodes = True
        return local_trace

    return global_trace


MON_TOOL = 4


def opcode_code_objects():
    """Code objects that get instruction-level points (they touch
    process-wide state)."""
    out = []
    try:
        import qrcode.main as qm
        out.append(qm.QRCode.makeImpl.__code__)
    except Exception:  # noqa
        pass
    try:
        from qrcode.compat.etree import ET
        out.append(ET.register_namespace.__code__)
    except Exception:  # noqa
        pass
    try:
        import qrcode.image.svg as svg
        for name in dir(svg):
            cls = getattr(svg, name)
            if isinstance(cls, type) and "__init__" in vars(cls):
                out.append(vars(cls)["__init__"].__code__)
    except Exception:  # noqa
        pass
    return out


def install_monitor(sched, roots, et_file, profile=None):
    """sys.monitoring backend (PEP 669): same points as the settrace backend at
    roughly half the cost.  Untraced code locations disable themselves after
    their first event."""
    mon = sys.monitoring
    E = mon.events
    mon.use_tool_id(MON_TOOL, "threadsim")
    cache = {}
    SS = sched.S
    slow = sched.slow
    DIS = mon.DISABLE

    def on_line(code, line):
        flag = cache.get(code)
        if flag is None:
            fn = code.co_filename
            flag = cache[code] = bool(fn == et_file or any(fn.startswith(r) for r in roots))
        if not flag:
            return DIS
        tid = sched.current
        if tid is None:
            return None
        S = SS[tid]
        S[0] = c = S[0] + 1
        if profile is not None:
            key = (code.co_filename, line)
            profile[key] = profile.get(key, 0) + 1
        elif c >= S[1] or (S[2] == line and code.co_filename.endswith(S[3])):
            slow(tid, code.co_filename, line)
        return None

    def on_instruction(code, offset):
        tid = sched.current
        if tid is None:
            return None
        S = SS[tid]
        S[0] = c = S[0] + 1
        if profile is None and c >= S[1]:
            slow(tid, code.co_filename, -2)
        return None

    mon.register_callback(MON_TOOL, E.LINE, on_line)
    mon.register_callback(MON_TOOL, E.INSTRUCTION, on_instruction)
    for code in opcode_code_objects():
        mon.set_local_events(MON_TOOL, code, E.INSTRUCTION)
    mon.set_events(MON_TOOL, E.LINE)


def uninstall_monitor():
    mon = sys.monitoring
    mon.set_events(MON_TOOL, 0)
    for code in opcode_code_objects():
        mon.set_local_events(MON_TOOL, code, 0)
    mon.register_callback(MON_TOOL, mon.events.LINE, None)
    mon.register_callback(MON_TOOL, mon.events.INSTRUCTION, None)
    mon.free_tool_id(MON_TOOL)


def backend():
    b = os.environ.get("VERIF_TRACE", "settrace")
    if b == "monitoring" and not hasattr(sys, "monitoring"):
        b = "settrace"
    return b


def traced_roots():
    import qrcode
    from qrcode.compat.etree import ET
    root = os.path.dirname(os.path.abspath(qrcode.__file__)) + os.sep
    return [root], getattr(ET, "__file__", "")


def run_threads(programs, prio, preemptions, strategy, rng_seed, oplines=None):
    """Run the programs concurrently under the scheduler.  -> (results per
    thread, sched)"""
    n = len(programs)
    rng = random.Random(rng_seed)
    sched = Sched(n, prio, preemptions, strategy, rng, oplines)
    roots, et_file = traced_roots()
    results = [None] * n
    errors = [None] * n

    use_mon = backend() == "monitoring"

    def body(tid):
        sched.idents[tid] = _thread.get_ident()
        tr = None if use_mon else make_tracer(sched, tid, roots, et_file)
        sched.events[tid].wait()
        if tr is not None:
            sys.settrace(tr)
        try:
            results[tid] = run_program(programs[tid])
        except BaseException as e:  # noqa - harness trouble
            errors[tid] = repr(e)
        finally:
            if tr is not None:
                sys.settrace(None)
            sched.finish(tid)

    threads = [threading.Thread(target=body, args=(t,), name=f"sim-{t}", daemon=True)
               for t in range(n)]
    sched.threads = threads
    traced.HOOKS.before = sched.access
    traced.HOOKS.after = sched.after_access
    for t in threads:
        t.start()
    _ACTIVE[0] = sched
    sched.active = True
    first = sched.pick()
    sched._arm(first)
    if use_mon:
        install_monitor(sched, roots, et_file)
    sched.current = first
    sched.events[first].set()
    ok = sched.all_done.wait(timeout=150)
    _ACTIVE[0] = None
    if use_mon:
        uninstall_monitor()
    if not ok:
        raise core.HarnessError("threadsim: threads did not finish (lost baton?)")
    for t in threads:
        t.join(timeout=10)
    traced.HOOKS.before = None
    traced.HOOKS.after = None
    if any(errors):
        raise core.HarnessError(f"thread body failed: {errors}")
    return results, sched


# --------------------------------------------------------------------------
# reference: the same program alone in a pristine process (+ line profile)
# --------------------------------------------------------------------------

def ref_handler(spec):
    kind = spec[0]
    if kind == "solo":
        return {"results": run_program(spec[1])}
    if kind == "solo_traced":
        # the program alone, but with everything the simulator adds (recording
        # containers, tracer, scheduler with nothing to schedule)
        install_traced_dicts()
        res, _ = run_threads([spec[1]], [0], [], {"kind": "explicit"}, 0,
                             [list(o) for o in spec[2]])
        return {"results": res[0]}
    if kind == "profile":
        # solo run under the tracer: which lines does this program execute, how often,
        # and how many shared accesses does it make
        install_traced_dicts()
        prof = {}
        sched = Sched(1, [0], [], {"kind": "explicit"}, random.Random(0))
        roots, et_file = traced_roots()
        use_mon = backend() == "monitoring"
        sched.threads = [threading.current_thread()]
        sched.idents[0] = _thread.get_ident()
        sched.current = 0
        sched.active = True
        traced.HOOKS.before = sched.access
        traced.HOOKS.after = sched.after_access
        if use_mon:
            install_monitor(sched, roots, et_file, profile=prof)
        else:
            sys.settrace(make_tracer(sched, 0, roots, et_file, profile=prof))
        try:
            run_program(spec[1])
        finally:
            if use_mon:
                uninstall_monitor()
            else:
                sys.settrace(None)
            traced.HOOKS.before = None
            traced.HOOKS.after = None
        root = roots[0]
        locs = sorted(((fn[len(root):] if fn.startswith(root) else os.path.basename(fn)), ln, c)
                      for (fn, ln), c in prof.items())
        return {"locs": locs, "points": sched.S[0][0], "accesses": sched.lacc[0]}
    raise core.HarnessError(f"unknown reference request {spec[0]!r}")


# --------------------------------------------------------------------------
# one run
# --------------------------------------------------------------------------

CANARY_FACTORIES = ["svgfrag", "svg", "svgpath", "pypng", "pil"]


def canary_programs(versions):
    progs = []
    for v in sorted(versions):
        progs.append([["new", [["version", v], ["mask_pattern", v % 8]]],
                      ["add", ["s", "CANARY-%d" % v], 20], ["make", False]])
    for f in CANARY_FACTORIES:
        progs.append([["new", [["version", 1], ["mask_pattern", 1], ["box_size", 1]]],
                      ["add", ["s", "c"], 20], ["image", f, "save"]])
    progs.append([["new", [["version", 1], ["mask_pattern", 2]]], ["add", ["s", "c"], 20],
                  ["print_ascii", "invert"], ["print_tty"]])
    return progs


def prog_versions(prog):
    vs = set()
    for st in prog:
        if st[0] == "new":
            v = dict(st[1]).get("version")
            if v:
                vs.add(v)
    return vs


def _tup(x):
    return tuple(_tup(i) for i in x) if isinstance(x, list) else x


_HOT = {}


def static_hot_lines():
    """Source lines of the library that write process-wide state *without* going
    through a container method (those are covered by sim/traced.py): STORE_GLOBAL /
    DELETE_GLOBAL inside functions, attribute stores onto an object held in a module
    global / onto `cls` / `__class__` / `type(...)`, plus the lines that read the
    globals so written.  Found by disassembly; empty on the pinned tree.  Used only to
    bias where the `loc` strategy places pre-emptions."""
    if "v" in _HOT:
        return _HOT["v"]
    import dis
    import types
    roots, _ = traced_roots()
    root = roots[0]
    codes = []
    seen = set()

    def walk(code, glob):
        if code in seen:
            return
        seen.add(code)
        codes.append((code, glob))
        for c in code.co_consts:
            if isinstance(c, types.CodeType):
                walk(c, glob)

    for name, mod in sorted(sys.modules.items()):
        if mod is None or not (name == "qrcode" or name.startswith("qrcode.")) \
                or ".tests" in name:
            continue
        for v in list(vars(mod).values()):
            if isinstance(v, types.FunctionType) and v.__module__ == name:
                walk(v.__code__, v.__globals__)
            elif isinstance(v, type) and v.__module__ == name:
                for cv in vars(v).values():
                    f = cv.__func__ if isinstance(cv, (classmethod, staticmethod)) else cv
                    if isinstance(f, property):
                        for g in (f.fget, f.fset, f.fdel):
                            if isinstance(g, types.FunctionType):
                                walk(g.__code__, g.__globals__)
                    elif isinstance(f, types.FunctionType):
                        walk(f.__code__, f.__globals__)
    hot = set()
    written = set()
    per_code = []
    for code, glob in codes:
        fn = code.co_filename
        if not fn.startswith(root):
            continue
        rel = fn[len(root):]
        ins = list(dis.get_instructions(code))
        line = code.co_firstlineno
        rows = []
        for i, x in enumerate(ins):
            if x.positions is not None and x.positions.lineno is not None:
                line = x.positions.lineno
            rows.append((x, line))
        per_code.append((rel, id(glob), rows))
        for i, (x, ln) in enumerate(rows):
            if x.opname in ("STORE_GLOBAL", "DELETE_GLOBAL"):
                hot.add((rel, ln))
                written.add((id(glob), x.argval))
            elif x.opname == "STORE_ATTR" and i > 0:
                p, _ = rows[i - 1]
                tgt = False
                if p.opname == "LOAD_GLOBAL":
                    obj = glob.get(p.argval)
                    tgt = obj is not None and not isinstance(
                        obj, (types.FunctionType, types.BuiltinFunctionType))
                elif p.opname == "LOAD_FAST" and p.argval == "cls":
                    tgt = True
                elif p.opname == "LOAD_ATTR" and p.argval == "__class__":
                    tgt = True
                elif p.opname == "CALL" and i > 2 and rows[i - 3][0].opname == "LOAD_GLOBAL" \
                        and rows[i - 3][0].argval == "type":
                    tgt = True
                if tgt:
                    hot.add((rel, ln))
    for rel, gid, rows in per_code:
        for x, ln in rows:
            if x.opname == "LOAD_GLOBAL" and (gid, x.argval) in written:
                hot.add((rel, ln))
    _HOT["v"] = sorted(hot)
    return _HOT["v"]


def canonical(prog):
    """Program shape for the line profile: versions, forced/auto mask, step
    kinds and factories are kept; payloads and cosmetic settings are not (the
    set of executed lines hardly depends on them, and the memo hits often)."""
    out = []
    for st in prog:
        if st[0] == "new":
            kw = dict(st[1])
            c = [["version", kw.get("version")]]
            if "mask_pattern" in kw:
                c.append(["mask_pattern", 0])
            if "box_size" in kw:
                c.append(["box_size", kw["box_size"]])     # decides the cost, not the lines
            out.append(["new", c])
        elif st[0] == "add":
            out.append(list(st))        # payload and threshold decide which lines run
        else:
            out.append(list(st))
    return out


def build_preemptions(case, ref, rng):
    """Turn the case's seeded strategy into explicit pre-emptions (where that
    is possible before running).  -> (pre-emptions, oplines)"""
    strat = case["strategy"]
    kind = strat["kind"]
    n = len(case["threads"])
    if kind == "explicit":
        return [list(p) for p in case.get("preemptions", [])], \
            [list(o) for o in case.get("oplines", [])]
    if kind in ("loc", "pct", "stall"):
        profs = [ref(("profile", _tup(canonical(p)))) for p in case["threads"]]
    if kind == "loc":
        pre, oplines = [], []
        hotset = set(static_hot_lines())
        for _ in range(strat.get("targets", 1)):
            t = rng.randrange(n)
            locs = profs[t]["locs"]
            if not locs:
                continue
            fn, ln, cnt = locs[rng.randrange(len(locs))]
            hot = [l for l in locs if (l[0], l[1]) in hotset]
            is_hot = bool(hot) and rng.random() < 0.6
            if is_hot:
                fn, ln, cnt = hot[rng.randrange(len(hot))]
            # bias to the first occurrences: state-changing work happens at entry
            k = 1 if rng.random() < 0.4 else rng.randint(1, cnt)
            if rng.random() < (0.8 if is_hot else strat.get("p_subline", 0.5)):
                # yield in the middle of that line: opcode events are switched on for
                # the function containing it, and some of them are let pass
                pre.append(["loc", t, fn, ln, k, rng.randint(1, 14)])
                oplines.append([t, fn, ln])
            else:
                pre.append(["loc", t, fn, ln, k, 0])
        return pre, oplines
    if kind == "pct":
        total = sum(p["points"] for p in profs)
        return [["stepg", rng.randint(1, max(total, 1))]
                for _ in range(strat["depth"] - 1)], []
    if kind == "stall":
        t = rng.randrange(n)
        a = profs[t]["accesses"]
        if a:
            return [["acc", t, rng.randint(1, a), rng.choice(["before", "after"])]], []
        return [], []
    return [], []        # walk / access decide online


def run_case(case, ref):
    log = EventLog(case.get("seed", 0))
    stats = Stats()
    violations = []

    def viol(cls, msg, fp):
        if not any(v.cls == cls for v in violations):
            violations.append(Violation(PROP, cls, msg, fp))

    programs = case["threads"]
    n = len(programs)
    rng = random.Random(case.get("sched_seed", 0))
    found = install_traced_dicts()
    before = module_globals_digest()

    # prologue: process caches cold / warm
    cache = case.get("cache") or {"kind": "cold"}
    touched = set()
    if cache["kind"] != "cold":
        for prog in canary_programs(cache.get("versions", []))[:len(cache.get("versions", []))]:
            run_program(prog)
        touched.update(cache.get("versions", []))
    if case.get("warm_svg"):
        run_program(canary_programs([])[0])
    stats.inc("cache." + cache["kind"])

    expected = [ref(("solo", _tup(p)))["results"] for p in programs]
    preempt, oplines = build_preemptions(case, ref, rng)
    prio = case.get("prio") or list(range(n))
    strategy = case["strategy"]
    results, sched = run_threads(programs, prio, preempt, strategy,
                                 case.get("sched_seed", 0), oplines)
    after = module_globals_digest()
    changed = sorted(k for k in after if before.get(k) != after[k])

    stats.inc("strategy." + strategy["kind"])
    stats.inc("threads.%d" % n)
    stats.inc("points", sched.gstep())
    stats.inc("shared_accesses", len(sched.access_log))
    stats.inc("fault.preemptions", len(sched.switch_log))
    stats.inc("fault.preemptions_at_shared_access", sched.windows)
    stats.inc("fault.forced_switches_on_contended_lock", sched.lock_waits)
    if sched.capped:
        stats.inc("probe.point_cap_reached")
    stats.inc("fault.hot_line_points", sched.hot_hits)
    for k in changed:
        stats.inc("probe.global_changed." + k)
    acc_hash = core.short_hash(repr(sched.access_log))
    keys = {}
    for (tid, dname, kind, key) in sched.access_log:
        keys.setdefault((dname, key), set()).add(tid)
    contended = any(len(v) >= 2 for k, v in keys.items() if k[1] != "None")
    if contended:
        stats.add("interleavings_contended", acc_hash)
        stats.inc("probe.two_threads_same_shared_key")
    stats.add("interleavings", acc_hash)
    for hl in static_hot_lines():
        stats.add("static_hot_lines", hl)
    for nm in {a[1] for a in sched.access_log}:
        stats.add("written_shared_containers", nm)
    if sched.switch_log:
        stats.inc("probe.runs_with_preemption")
    log.ev("prio", prio, "strategy", strategy["kind"], "points", sched.gstep(),
           "accesses", len(sched.access_log), "switches", sched.switch_log)
    log.ev("access_order", acc_hash)

    shape = "+".join(sorted({st[1] if st[0] == "image" else st[0]
                             for p in programs for st in p if st[0] in
                             ("image", "make", "get_matrix", "print_ascii")}))
    for t in range(n):
        log.ev("thread", t, core.short_hash(repr(results[t])))
        if results[t] != expected[t]:
            for i, (got, want) in enumerate(zip(results[t], expected[t])):
                if got != want:
                    step = programs[t][i]
                    what = step[1] if step[0] == "image" else step[0]
                    viol("C19/thread-result-differs-from-solo",
                         f"thread {t} step {i} {step[:3]}: got {_brief(got)}, alone in a "
                         f"pristine process it gives {_brief(want)}; preemptions "
                         f"{sched.switch_log}", f"{what}")
                    break
        touched |= prog_versions(programs[t])

    # canary: sequential use of the aged process must look pristine
    if not violations and case.get("canary", True):
        # the threads' own programs once more, now sequentially in the aged process
        for t in range(n):
            got = run_program(programs[t])
            stats.inc("canary.programs")
            if got != expected[t]:
                i = next(k for k, (g, w) in enumerate(zip(got, expected[t])) if g != w)
                step = programs[t][i]
                what = step[1] if step[0] == "image" else step[0]
                viol("C19/state-leaked-into-later-objects",
                     f"after the concurrent phase, thread {t}'s program run again "
                     f"sequentially differs at step {i} {step[:3]} from a pristine process; "
                     f"preemptions {sched.switch_log}", f"rerun|{what}")
                break
    if not violations and case.get("canary", True):
        for prog in canary_programs(touched):
            want = ref(("solo", _tup(prog)))["results"]
            got = run_program(prog)
            stats.inc("canary.programs")
            if got != want:
                what = prog[-1][1] if prog[-1][0] == "image" else prog[-1][0]
                viol("C19/state-leaked-into-later-objects",
                     f"after the concurrent phase, a new object running {prog[-1]} "
                     f"(version {dict(prog[0][1]).get('version')}) differs from a pristine "
                     f"process", f"canary|{what}")
                break
    # hand the explicit schedule back so that the run can be replayed exactly
    explicit = {"prio": prio, "preemptions": sched.switch_log, "oplines": oplines}
    stats.inc("fault.sub_line_targets_reached", sched.sub_line_targets)
    return {"violations": [v.to_json() for v in violations], "stats": stats,
            "log": log.lines, "steps": sched.gstep(), "explicit": explicit,
            "contended": contended, "traced_dicts": found}


def _brief(r):
    if r[0] == "exc":
        return f"exception {r[1]}"
    v = r[1]
    if isinstance(v, (bytes, str)):
        return f"{type(v).__name__}[{len(v)}] {v[:60]!r}"
    return f"value#{core.short_hash(repr(v))}"


# --------------------------------------------------------------------------
# generation
# --------------------------------------------------------------------------

PAYLOADS = ["a", "HELLO", "12345", "thread data", b"\x00\x01", "x" * 30, "7" * 40, "HELLO WORLD 123",
            "ticket-001", "ticket-002"]


SVG_DRAWER_ALIASES = ["circle", "gapped-circle", "gapped-square"]


def _gen_drawers(rng):
    """Optional drawer keyword arguments (aliases) for the SVG factories: with
    them the eye drawer and the module drawer differ."""
    if rng.random() >= 0.35:
        return []
    kw = []
    r = rng.random()
    if r < 0.7:
        kw.append(["module_drawer", rng.choice(SVG_DRAWER_ALIASES)])
    if r >= 0.5:
        kw.append(["eye_drawer", rng.choice(SVG_DRAWER_ALIASES)])
    return [kw]


def _gen_styled_kwargs(rng, force=False):
    kw = []
    if force or rng.random() < 0.8:
        kw.append(["module_drawer", rng.choice(STYLED_DRAWERS)])
    if rng.random() < 0.3:
        kw.append(["eye_drawer", rng.choice(STYLED_DRAWERS)])
    if rng.random() < 0.3:
        kw.append(["color_mask", rng.choice(STYLED_MASKS)])
    return kw


def gen_program(rng, shared_versions, tier, second=False, styled_p=0.045):
    v = rng.choice(shared_versions) if rng.random() < 0.8 else rng.randint(1, 3)
    kw = [["version", v]]
    auto_mask = rng.random() < 0.05
    if not auto_mask:
        kw.append(["mask_pattern", rng.randrange(8)])
    else:
        kw[0] = ["version", 1]
    if rng.random() < 0.4:
        kw.append(["border", rng.choice([0, 1, 4])])
    kw.append(["box_size", rng.choice([1, 2, 2, 2, 10])])
    if rng.random() < 0.3:
        kw.append(["error_correction", rng.choice([0, 1, 2, 3])])
    prog = [["new", kw]]
    if rng.random() < 0.06:
        # over capacity for the forced version: this thread's compile fails legitimately
        prog.append(["add", enc_payload("y" * 80), 0])
        prog.append(["make", False])
        return prog
    prog.append(["add", enc_payload(rng.choice(PAYLOADS)), rng.choice([20, 0])])
    if rng.random() < 0.7:
        prog.append(["make", rng.random() < 0.5])
    for _ in range(1 if second else rng.choice([1, 1, 2])):
        r = rng.random()
        if r < 0.10:
            prog.append(["get_matrix"])
        elif r < 0.17:
            prog.append(["print_ascii", rng.choice(["plain", "invert", "tty"])])
        elif r < 0.20:
            prog.append(["print_tty"])
        elif r < 0.40:
            prog.append(["image", "svgfrag", rng.choice(["save", "to_string"])])
        elif r < 0.56:
            prog.append(["image", "svg", rng.choice(["save", "to_string"])] + _gen_drawers(rng))
        elif r < 0.70:
            prog.append(["image", "svgpath", "save"] + _gen_drawers(rng))
        elif r < 0.82:
            prog.append(["image", "pypng", "save"])
        elif r < 1.0 - styled_p:
            prog.append(["image", "pil", "save"])
        else:
            kw = _gen_styled_kwargs(rng)
            prog.append(["image", "styled", "save"] + ([kw] if kw else []))
    if any(st[0] == "image" and st[1] == "styled" for st in prog):
        # StyledPilImage recolours pixel by pixel in Python (every pixel is a few traced
        # lines): version 1, boxes of 4 pixels (the antialiased shapes degenerate below
        # that), no border - about 7 k pixels, 350 k points
        keep = [kv for kv in prog[0][1] if kv[0] not in ("box_size", "version", "border")]
        prog[0][1] = [["version", 1]] + keep + [["box_size", 4], ["border", 0]]
    if not second and rng.random() < 0.08:
        # the module-level shortcut (own throw-away object, default factory)
        prog.append(["shortcut", enc_payload(rng.choice(PAYLOADS[:4])),
                     [["version", v], ["mask_pattern", rng.randrange(8)], ["box_size", 1]]])
    if not second and rng.random() < 0.15:
        prog += gen_program(rng, shared_versions, tier, second=True)   # a second object
    return prog


def gen_automask_case(rng, tier):
    """Both/all threads choose the mask automatically for the same symbol size:
    the eight trial compilations and the penalty scoring of one thread run
    interleaved with another thread's."""
    n = rng.choice([2, 2, 3])
    v0 = rng.choice([1, 1, 1, 2])
    mixed = rng.random() < 0.45            # symbols of different sizes scored concurrently
    threads = []
    for _ in range(n):
        v = rng.choice([1, 2]) if mixed else v0
        kw = [["version", v], ["box_size", 1]]
        if rng.random() < 0.3:
            kw.append(["error_correction", rng.choice([0, 1, 2, 3])])
        prog = [["new", kw], ["add", enc_payload(rng.choice(PAYLOADS[:5])), rng.choice([20, 0])],
                ["make", rng.random() < 0.3]]
        if rng.random() < 0.2:
            prog.append(["get_matrix"])
        threads.append(prog)
    return threads


def generate(rng, tier, opts=None):
    n = rng.choice([2, 2, 2, 3, 3, 4])
    shared_versions = [rng.choice([1, 1, 1, 2, 2, 3] if tier == "quick" else [1, 1, 2, 2, 3, 4, 5, 7])
                       for _ in range(rng.choice([1, 1, 2]))]
    threads = [gen_program(rng, shared_versions, tier) for _ in range(n)]
    automask = rng.random() < 0.14
    if automask:
        threads = gen_automask_case(rng, tier)
        n = len(threads)
    elif rng.random() < 0.18:
        # twins: every thread runs the same program shape (same version, box size,
        # factory, drawers) on its own data - maximal contention on anything that is
        # keyed by size or by renderer
        base = gen_program(rng, shared_versions, tier, second=True,
                           styled_p=0.2 if rng.random() < 0.5 else 0.045)
        threads = []
        for _ in range(n):
            prog = [list(st) for st in base]
            for st in prog:
                if st[0] == "add":
                    st[1] = enc_payload(rng.choice(PAYLOADS))
                elif st[0] == "new":
                    st[1] = [list(kv) if kv[0] != "mask_pattern" else
                             ["mask_pattern", rng.randrange(8)] for kv in st[1]]
            threads.append(prog)
        if rng.random() < 0.45:
            # cousins: same renderer at the same size, but every thread with its own
            # drawers / colour mask (state keyed by size while the shapes differ)
            for prog in threads:
                for st in prog:
                    if st[0] == "image" and st[1] in ("svg", "svgpath"):
                        del st[3:]
                        st.extend(_gen_drawers(rng))
                    elif st[0] == "image" and st[1] == "styled":
                        del st[3:]
                        st.append(_gen_styled_kwargs(rng, force=True))
    r = rng.random()
    if automask:
        r = 0.3 + 0.58 * r       # accesses are not where this one hides: loc / pct / walk
    if static_hot_lines() and rng.random() < 0.35:
        # the tree stores to module globals / class attributes inside functions: treat those
        # lines (and the lines reading them) as access points
        strategy = {"kind": "hot", "p_hot": rng.choice([0.5, 0.3]),
                    "p_access": rng.choice([0.0, 0.3])}
    elif r < 0.3:
        strategy = {"kind": "access", "p_access": rng.choice([0.5, 0.3, 0.15])}
    elif r < 0.6:
        strategy = {"kind": "loc", "targets": rng.choice([1, 1, 2, 3])}
    elif r < 0.75:
        strategy = {"kind": "pct", "depth": rng.choice([2, 2, 3, 4])}
    elif r < 0.88:
        strategy = {"kind": "walk", "p": rng.choice([1e-2, 1e-3, 1e-4])}
    else:
        strategy = {"kind": "stall"}
    prio = list(range(n))
    rng.shuffle(prio)
    ck = rng.choice(["cold", "cold", "warm"])
    cache = {"kind": ck}
    if ck == "warm":
        cache["versions"] = sorted(set(rng.sample(shared_versions + [rng.randint(1, 4)],
                                                  rng.randint(1, 2))))
    return {"threads": threads, "strategy": strategy, "prio": prio, "cache": cache,
            "warm_svg": rng.random() < 0.3, "sched_seed": rng.getrandbits(32),
            "canary": True}


# --------------------------------------------------------------------------
# engine interface
# --------------------------------------------------------------------------

def worker_init(prop, tier, opts):
    install_sim_locks()          # before the library is imported: module-level locks
    core.import_target()
    return {"fs": ForkServer(ref_handler)}


def worker_fini(ctx):
    pass


def execute(ctx, case, log):
    res = ctx["fs"].run(run_case, case, timeout=400.0)
    log.lines.extend(res["log"][1:])
    ctx["last"] = res
    return [Violation.from_json(v) for v in res["violations"]], res["stats"], res["steps"]


def to_explicit(case, res):
    """The same run, described without any PRNG: explicit priority order and
    the pre-emptions that actually happened."""
    c = dict(case)
    c["strategy"] = {"kind": "explicit"}
    c["prio"] = res["explicit"]["prio"]
    c["preemptions"] = res["explicit"]["preemptions"]
    c["oplines"] = res["explicit"]["oplines"]
    return c


def run_index(ctx, prop, tier, master, idx, opts):
    seed = core.derive_seed(master, prop, idx)
    rng = random.Random(seed)
    case = generate(rng, tier, opts)
    log = EventLog(seed)
    violations, stats, steps = execute(ctx, case, log)
    res = ctx["last"]
    stats.inc("runs")
    explicit = to_explicit(case, res)
    if res["contended"]:
        stats.add("nontrivial", core.short_hash([case["threads"], explicit["prio"],
                                                 explicit["preemptions"]]))
    sample = None
    if idx < 64 and res["explicit"]["preemptions"]:
        sample = {"run_index": idx, "threads": case["threads"], "prio": explicit["prio"],
                  "preemptions": explicit["preemptions"], "strategy": case["strategy"]}
    # the stored case of a violating run is the explicit one
    return core.RunOutcome(idx, seed, log.digest(), violations,
                           explicit if violations else case, stats, sample, steps)


def _fails(ctx, case, key):
    if core.min_expired():
        return False
    v, _, _ = execute(ctx, case, EventLog(0))
    return any(x.key() == key for x in v)


def minimise(ctx, case, violation):
    key = violation.key()
    case = dict(case)
    if case["strategy"]["kind"] != "explicit":
        # make it explicit first
        execute(ctx, case, EventLog(0))
        case = to_explicit(case, ctx["last"])
        if not _fails(ctx, case, key):
            raise core.HarnessError("explicit schedule does not reproduce the violation")
    # 1. pre-emptions
    case["preemptions"] = core.ddmin(
        case["preemptions"], lambda ps: _fails(ctx, dict(case, preemptions=ps), key),
        max_tests=120)
    # 2. whole threads (only those no pre-emption refers to; renumbering otherwise)
    t = len(case["threads"]) - 1
    while t >= 0 and len(case["threads"]) > 1:
        if not any(p[1] == t for p in case["preemptions"]):
            trial = dict(case)
            trial["threads"] = [p for i, p in enumerate(case["threads"]) if i != t]
            ren = lambda x: x - 1 if x > t else x  # noqa
            trial["prio"] = [ren(x) for x in case["prio"] if x != t]
            trial["preemptions"] = [[p[0], ren(p[1])] + p[2:] for p in case["preemptions"]]
            trial["oplines"] = [[ren(o[0])] + o[1:] for o in case.get("oplines", [])
                                if o[0] != t]
            if _fails(ctx, trial, key):
                case = trial
        t -= 1
    # 3. environment
    for k, simple in (("cache", {"kind": "cold"}), ("warm_svg", False), ("canary", False)):
        if case.get(k) != simple:
            trial = dict(case)
            trial[k] = simple
            if _fails(ctx, trial, key):
                case = trial
    return case


def confirm(ctx, case, violation):
    """Instrumentation fidelity: each thread's program, run alone in a pristine
    process *with* the recording containers, the tracer and the scheduler in
    place, must give exactly what it gives without them.  Otherwise the
    simulator itself - not the interleaving - changed the behaviour and the
    finding must not be reported as a violation."""
    fs = ctx["fs"]
    for t, prog in enumerate(case["threads"]):
        plain = fs.reference(("solo", _tup(prog)))["results"]
        opl = tuple(tuple([0] + list(o[1:])) for o in case.get("oplines", []) if o[0] == t)
        traced_ = fs.reference(("solo_traced", _tup(prog), opl))["results"]
        if plain != traced_:
            return (f"thread {t}'s program gives a different result alone under the "
                    f"simulator's instrumentation than alone without it: the recording "
                    f"containers / tracer change sequential behaviour")
    return None


def coverage(merged, tier):
    st = merged["stats"]
    return {
        "evaluations": merged["runs"],
        "distinct_nontrivial": st.distinct("nontrivial"),
        "rule": ("one evaluation = one schedule: 2-4 real threads, each running its own seeded "
                 "program (construct, add_data, make, get_matrix / print_ascii / image render) "
                 "on private objects, interleaved by the seeded scheduler; non-trivial = at "
                 "least two threads touched the same key of a process-wide dictionary; distinct "
                 "by hash of (programs, priority order, pre-emptions that happened)"),
        "samples": merged["samples"][:4] or [{"note": "no pre-empted sample among the first 64"}],
        "scheduler_points_total": merged["steps"],
        "shared_dict_accesses": st.count("shared_accesses"),
        "strategies": st.group("strategy."),
        "thread_counts": st.group("threads."),
        "faults_fired": st.group("fault."),
        "probes": st.group("probe."),
        "initial_cache_states": st.group("cache."),
        "canary_programs": st.count("canary.programs"),
        "process_wide_containers_written_at_run_time": sorted(
            st.sets.get("written_shared_containers", ())),
        "static_hot_lines_(global/class_scalar_stores)": sorted(
            st.sets.get("static_hot_lines", ())),
        "distinct_interleavings_or_states": {
            "measure": "distinct orders of (thread, dictionary, access kind, key) over the "
                       "process-wide dictionaries (schedules differing only in commuting "
                       "private steps collapse); second number: among runs where two threads "
                       "touched the same key",
            "count": st.distinct("interleavings"),
            "count_contended": st.distinct("interleavings_contended")},
        "simulated_time": "no clock in the code under test; logical steps = scheduler points "
                          "(line/opcode events and shared-dictionary accesses)",
        "components": {
            "real": ["qrcode library, xml.etree.ElementTree, Pillow, pypng, decimal - on real "
                     "threading.Thread objects", "reference = the same program alone in a "
                     "pristine forked process"],
            "stub": ["the OS/GIL scheduler: replaced by baton passing at sys.settrace line/opcode "
                     "events and at accesses to process-wide containers",
                     "every module-level / class-level / default-argument dict, list and set "
                     "of qrcode.* and ElementTree._namespace_map are rebound to recording "
                     "subclasses with identical behaviour (sim/traced.py)"]},
    }


ASSUMPTIONS = [
    "pre-emption grain: line events in qrcode/** and xml/etree/ElementTree.py, opcode events "
    "in makeImpl / the svg image __init__s / register_namespace and in the function of a "
    "chosen target line, and every access to a process-wide container once it has been "
    "written; Pillow, pypng, decimal and re internals execute as atomic steps",
    "CPython with the GIL; free-threaded builds are out of scope",
    "threads use disjoint objects (the property is about independent objects)",
    "reference = the library itself run alone in a pristine process (differential oracle)",
]
