"""relsim - C20: qrcode.release.update_manpage over a simulated file system and
a simulated clock that jumps between invocations.

A case is an explicit history::

    {"page": <initial page text or null (file missing)>,
     "start": <epoch seconds>,
     "steps": [{"name": str, "version": str|null, "jump": <seconds>}, ...]}

The clock jumps by `jump` *before* each step.  After every invocation the page
bytes must equal the ~20-line reference model, and no-op cases must not have
opened the page for writing at all.
"""

from __future__ import annotations

import datetime as real_datetime
import os
import time as real_time

from . import core
from .core import Violation, Stats, EventLog
from .env import SimFS, SimClock, ClockSeam

PROP = "C20"
MONTHS = ["Jan", "Feb", "Mar", "Apr", "May", "Jun", "Jul", "Aug", "Sep", "Oct",
          "Nov", "Dec"]
DAY = 86400


# --------------------------------------------------------------------------
# reference model (independent of the code under test)
# --------------------------------------------------------------------------

def model_date(ts: float) -> str:
    d = real_datetime.datetime(1970, 1, 1) + real_datetime.timedelta(seconds=ts)
    return f"{d.day} {MONTHS[d.month - 1]} {d.year}"


def split_lines(page: str):
    """Lines as a text-mode readlines() of an LF-terminated ASCII file gives."""
    out, start = [], 0
    while start < len(page):
        nl = page.find("\n", start)
        if nl < 0:
            out.append(page[start:])
            break
        out.append(page[start:nl + 1])
        start = nl + 1
    return out


def find_header(lines):
    """Index and quote positions of the header line: the first line beginning
    '.TH ' that carries at least two double-quoted fields."""
    for i, line in enumerate(lines):
        if not line.startswith(".TH "):
            continue
        q = [k for k, ch in enumerate(line) if ch == '"']
        if len(q) >= 4:
            return i, q
    return None, None


def model_update(page, name, version, ts):
    """-> (new_page, writes?)"""
    if name != "qrcode" or page is None:
        return page, False
    lines = split_lines(page)
    i, q = find_header(lines)
    if i is None:
        return page, False
    line = lines[i]
    if line[q[2] + 1:q[3]] == version:
        return page, False
    lines[i] = (line[:q[0] + 1] + model_date(ts) + line[q[1]:q[2] + 1]
                + version + line[q[3]:])
    return "".join(lines), True


# --------------------------------------------------------------------------
# generation
# --------------------------------------------------------------------------

WORDS = ["qr", "QR", "1", "Python QR tool", "script", "\\-\\-help", ".SH NAME",
         ".PP", ".RS 4", ".RE", "\\fB", "", " ", ".TH", ".TH ", "TH", '"', "x y",
         "7.4.2", "6 Feb 2023", "\t", ".THX", "#", "'"]
VERSIONS = ["7.4.2", "7.5", "8.0", "8.0rc1", "8.0.dev0", "10.11.12", "1", "",
            "7.4.2 ", " 7.5", "8.0+local.1", "v8", "8.0 beta", "7.4.2.post1",
            "\\-1", "1'2", "6 Feb 2023", "QR",
            # case / blank variants of each other (a sloppy comparison treats them as equal)
            "8.0RC1", "V8", "7.5 ", "8.0  beta", " ", "  ",
            # regex / template / format metacharacters (a replacement template, a format
            # string or a pattern built from the version must not interpret them)
            "8.1\\1", "8.1\\g<2>", "\\\\8", "8\\n1", "8.1\\d", "\\0", "\\g<0>", "%s", "%d",
            "8%", "{0}", "{}", "{version}", "$1", "${x}", ".*", "[8]", "(8)", "8|9", "^8$",
            "a&b", "8.1\\", "\\"]


def _gen_quoted(rng):
    r = rng.random()
    if r < 0.15:
        return ""
    if r < 0.5:
        return rng.choice(VERSIONS)
    if r < 0.7:
        return f"{rng.randint(1, 31)} {rng.choice(MONTHS)} {rng.randint(1999, 2031)}"
    return " ".join(rng.choice(["Python", "QR", "tool", "1", "a.b", "-", "\\-"])
                    for _ in range(rng.randint(1, 3)))


def _gen_body_line(rng):
    r = rng.random()
    if r < 0.25:
        return rng.choice(WORDS)
    if r < 0.35:   # .TH lookalikes that are not headers
        return rng.choice([".THX \"a\" \"b\" \"c\"", " .TH Q 1 \"a\" \"b\"",
                           ".TH\t\"a\" \"b\"", "x.TH Q 1 \"a\" \"b\"", ".th q 1 \"a\" \"b\"",
                           ".TH\"a\"\"b\"", ".TH"])
    if r < 0.45:   # malformed headers: prefix right, < 2 quoted fields
        return rng.choice([".TH QR 1", ".TH QR 1 \"only one\"", ".TH invalid",
                           ".TH QR 1 \"a\" \"unterminated", ".TH ", ".TH \"\" x",
                           ".TH QR 1 \"a\" b \"", ".TH  "])
    n = rng.randint(1, 6)
    return " ".join(rng.choice(WORDS) for _ in range(n)).replace("\n", " ")


def _gen_header(rng):
    title = rng.choice(["QR", "qr", "QRCODE", "Q R", ""])
    section = rng.choice(["1", "8", "1 ", ""])
    nq = rng.choice([2, 2, 3, 3, 3, 4, 5])
    sep = rng.choice([" ", " ", "  ", "\t", ""])
    fields = [_gen_quoted(rng) for _ in range(nq)]
    if rng.random() < 0.1:
        fields[1] = fields[0]            # date and version fields with identical text
    if rng.random() < 0.05:
        fields[1] = sep if sep else " "  # version field equal to the blank between fields
    line = ".TH " + title + (" " if title else "") + section + (" " if section else "")
    line += sep.join(f'"{f}"' for f in fields)
    line += rng.choice(["", "", " trailing", " \\\" comment", "  ", " x y"])
    return line


def gen_page(rng, tier):
    if rng.random() < 0.04:
        return ""
    nlines = rng.choice([0, 1, 2, 3, 3, 4, 5, 8, 12, 30 if tier == "thorough" else 16])
    if rng.random() < 0.03:
        nlines = rng.choice([40, 70, 130, 300])       # long pages: the header may come late
    lines = [_gen_body_line(rng) for _ in range(nlines)]
    if lines and rng.random() < 0.04:
        # a very long line (a buffer / hint / truncation limit would show)
        k = rng.randrange(len(lines))
        lines[k] = (lines[k] + " " + "x" * rng.choice([300, 1100, 5000, 9000])).strip()
    # do not let the body accidentally contain a second well-formed header
    lines = [ln for ln in lines if find_header([ln])[0] is None]
    has_header = rng.random() < 0.85
    if has_header:
        pos = rng.randint(0, len(lines))
        if rng.random() < 0.5 and len(lines) < 40:
            pos = min(pos, 1)
        lines.insert(pos, _gen_header(rng))
        if rng.random() < 0.08:
            # a second header-shaped line further down: the header is the first
            # one, the second is "every other line" and must stay untouched
            lines.insert(rng.randint(pos + 1, len(lines)), _gen_header(rng))
    if has_header and rng.random() < 0.2:
        # body lines that repeat the header's version / date text verbatim (a global
        # search-and-replace would touch them)
        hi, hq = find_header(lines)
        if hi is not None and len(hq) >= 4:
            h = lines[hi]
            ver, date = h[hq[2] + 1:hq[3]], h[hq[0] + 1:hq[1]]
            extra = rng.choice([f"version {ver} of {date}", f'"{ver}"', f'.SH "{date}" "{ver}"',
                                f"{ver}", f'x "{ver}" y "{date}"'])
            if find_header([extra])[0] is None:
                lines.insert(rng.randint(0, len(lines)), extra)
    page = "\n".join(lines)
    if lines and rng.random() < 0.85:
        page += "\n"
    return page


JUMPS = [
    ("none", lambda rng: 0),
    ("seconds", lambda rng: rng.randint(1, 59)),
    ("hours", lambda rng: rng.randint(1, 23) * 3600),
    ("midnight", None),          # computed: to just after next midnight
    ("days", lambda rng: rng.randint(1, 27) * DAY),
    ("month_end", None),
    ("year_end", None),
    ("back_seconds", lambda rng: -rng.randint(1, 59)),
    ("back_days", lambda rng: -rng.randint(1, 400) * DAY),
    ("years", lambda rng: rng.randint(1, 6) * 365 * DAY + rng.randint(0, 3) * DAY),
]


def _jump_seconds(kind, fn, rng, now):
    if fn is not None:
        return fn(rng)
    d = real_datetime.datetime(1970, 1, 1) + real_datetime.timedelta(seconds=now)
    if kind == "midnight":
        nxt = (d + real_datetime.timedelta(days=1)).replace(hour=0, minute=0, second=0,
                                                            microsecond=0)
    elif kind == "month_end":
        y, m = (d.year + 1, 1) if d.month == 12 else (d.year, d.month + 1)
        nxt = real_datetime.datetime(y, m, 1)
    else:
        nxt = real_datetime.datetime(d.year + 1, 1, 1)
    return int((nxt - d).total_seconds()) + rng.choice([0, 1, 30])


SHIPPED = {}


def shipped_page():
    """The manual page shipped with the tree (read once, from the real file
    system, before any simulation starts)."""
    if "v" not in SHIPPED:
        try:
            with open(os.path.join(core.REPO_DIR, "doc", "qr.1"), encoding="ascii") as f:
                SHIPPED["v"] = f.read()
        except (OSError, UnicodeDecodeError):
            SHIPPED["v"] = None
    return SHIPPED["v"]


def generate(rng, tier, opts=None):
    page = gen_page(rng, tier)
    if rng.random() < 0.04 and shipped_page() and "\r" not in shipped_page():
        page = shipped_page()
    missing = rng.random() < 0.03
    # anywhere between 1995 and 2060, biased to day/month boundaries
    start = rng.randint(788918400, 2840140800)
    if rng.random() < 0.3:
        start -= start % DAY
        start += rng.choice([0, 1, DAY - 1, DAY - 2, 43200])
    nsteps = rng.choice([1, 1, 2, 2, 2, 3, 3, 4, 5])
    used = []
    steps = []
    now = start
    hdr_i, hdr_q = find_header(split_lines(page))
    hdr_fields = []
    if hdr_i is not None:
        line = split_lines(page)[hdr_i]
        used.append(line[hdr_q[2] + 1:hdr_q[3]])
        hdr_fields = [line[hdr_q[2 * k] + 1:hdr_q[2 * k + 1]] for k in range(len(hdr_q) // 2)]
    for _ in range(nsteps):
        kind, fn = rng.choice(JUMPS)
        jump = _jump_seconds(kind, fn, rng, now)
        if now + jump < 631152000:          # stay after 1990
            jump, kind = 0, "none"
        now += jump
        r = rng.random()
        if r < 0.12:
            name = rng.choice(["not-qrcode", "qrcode2", "", "Qrcode", "qrcode "])
        else:
            name = "qrcode"
        r = rng.random()
        if used and r < 0.4:
            version = rng.choice(used)      # same / previously applied version
        elif hdr_fields and r < 0.47:
            version = rng.choice(hdr_fields)     # equals another field of the header
        else:
            version = rng.choice(VERSIONS)
        if name != "qrcode" and rng.random() < 0.4:
            version = None                   # as zest.releaser may for other pkgs
        used.append(version if version is not None else "")
        steps.append({"name": name, "version": version, "jump": jump, "jump_kind": kind})
    case = {"page": None if missing else page, "start": start, "steps": steps}
    if rng.random() < 0.5:
        # the simulated local zone is not UTC: "today" is the *local* date
        case["tz_offset"] = rng.choice([-8 * 3600, -5 * 3600, 19800, 13 * 3600, 3600, -3600])
    return case


# --------------------------------------------------------------------------
# execution
# --------------------------------------------------------------------------

OLD_MTIME = 1_000_000_000


def worker_init(prop, tier, opts):
    """The hook is loaded from a *private copy* of <repo>/qrcode/release.py placed
    in a scratch package directory, so that the path it computes
    (<package parent>/doc/qr.1) lies in that scratch directory: code that
    by-passes the simulated open() can never touch the repository's real manual
    page.  The copy is taken from the current working tree."""
    import importlib.util
    import shutil
    import tempfile
    core.import_target()
    src = os.path.join(core.REPO_DIR, "qrcode", "release.py")
    base = "/dev/shm" if os.path.isdir("/dev/shm") and os.access("/dev/shm", os.W_OK) else None
    td = tempfile.mkdtemp(prefix="verif_rel_", dir=base)
    os.makedirs(os.path.join(td, "qrcode"))
    os.makedirs(os.path.join(td, "doc"))
    shutil.copy(src, os.path.join(td, "qrcode", "release.py"))
    spec = importlib.util.spec_from_file_location(
        "verif_release_copy_%d" % os.getpid(), os.path.join(td, "qrcode", "release.py"))
    rel = importlib.util.module_from_spec(spec)
    spec.loader.exec_module(rel)
    real_page = os.path.join(core.REPO_DIR, "doc", "qr.1")
    guard = None
    if os.path.exists(real_page):
        with open(real_page, "rb") as f:
            guard = f.read()
    return {"rel": rel, "path": os.path.join(td, "doc", "qr.1"), "tmp": td,
            "mode": "simfs", "real_page": real_page, "guard": guard}


def worker_fini(ctx):
    import shutil
    shutil.rmtree(ctx["tmp"], ignore_errors=True)
    # belt and braces: the repository's own page must be exactly as it was
    if ctx["guard"] is not None:
        try:
            with open(ctx["real_page"], "rb") as f:
                now = f.read()
        except OSError:
            now = None
        if now != ctx["guard"]:
            with open(ctx["real_page"], "wb") as f:
                f.write(ctx["guard"])
            raise core.HarnessError("the code under test modified the repository's real "
                                    "doc/qr.1 (restored); its path computation by-passes "
                                    "the scratch copy")


class SimBackend:
    """Primary: the page lives in SimFS (exact open/write/close log).  A mirror
    of the page is kept in the real scratch directory only to *notice* code
    that reaches the file system without going through open()."""

    name = "simfs"

    def __init__(self, ctx, page):
        self.path = ctx["path"]
        self.doc = os.path.dirname(self.path)
        self.fs = SimFS(lambda p: os.path.abspath(p).startswith(self.doc + os.sep))
        if page is not None:
            self.fs.files[self.path] = page.encode("utf-8")
        self.bypassed = False
        _real_reset(self.path, page)
        self.fs.install()

    def before(self):
        self.mark = len(self.fs.log)
        self.listing = sorted(os.listdir(self.doc))

    def after(self):
        ops = self.fs.log[self.mark:]
        wrote = [e for e in ops if e[0] == "open" and any(c in e[2] for c in "wax+")]
        data = self.fs.files.get(self.path)
        if sorted(os.listdir(self.doc)) != self.listing or \
                (os.path.exists(self.path) and os.stat(self.path).st_mtime != OLD_MTIME):
            self.bypassed = True
        closed = [e for e in ops if e[0] == "close"]
        return (None if data is None else data.decode("utf-8")), wrote, len(closed) < len(wrote)

    def close(self):
        SimFS.uninstall()


class RealBackend:
    """Fallback, used once a by-pass of open() has been noticed: everything
    happens in the real scratch directory; a write is observed as a changed
    modification time (reset to a fixed old value before every invocation) or a
    changed directory listing."""

    name = "realdir"

    def __init__(self, ctx, page):
        self.path = ctx["path"]
        self.doc = os.path.dirname(self.path)
        self.bypassed = False
        _real_reset(self.path, page)

    def before(self):
        for f in os.listdir(self.doc):
            fp = os.path.join(self.doc, f)
            if fp != self.path:
                os.unlink(fp)
        if os.path.exists(self.path):
            os.utime(self.path, (OLD_MTIME, OLD_MTIME))
        self.listing = sorted(os.listdir(self.doc))

    def after(self):
        data = None
        wrote = []
        if os.path.exists(self.path):
            with open(self.path, encoding="utf-8", newline="") as f:
                data = f.read()
            if os.stat(self.path).st_mtime != OLD_MTIME:
                wrote.append(("modified", self.path))
        if sorted(os.listdir(self.doc)) != self.listing:
            wrote.append(("directory-changed", self.doc))
        return data, wrote, False

    def close(self):
        pass


def _real_reset(path, page):
    doc = os.path.dirname(path)
    for f in os.listdir(doc):
        os.unlink(os.path.join(doc, f))
    if page is not None:
        with open(path, "w", encoding="utf-8", newline="") as f:
            f.write(page)
        os.utime(path, (OLD_MTIME, OLD_MTIME))


def header_shape(page):
    if page is None:
        return "missing"
    lines = split_lines(page)
    i, q = find_header(lines)
    if i is not None and find_header(lines[i + 1:])[0] is not None:
        return f"hdr@{min(i, 3)}q{min(len(q) // 2, 4)}+second"
    if i is None:
        return "malformed-only" if any(l.startswith(".TH ") for l in lines) else "none"
    return f"hdr@{min(i, 3)}q{min(len(q) // 2, 4)}{'' if page.endswith(chr(10)) else '-nonl'}"


def execute(ctx, case, log: EventLog):
    if ctx["mode"] == "simfs":
        out = _execute(ctx, case, log, SimBackend)
        bypassed = out[3]
        if out[0] and not bypassed:
            # a violation seen through the simulated file system is re-judged at once on
            # the real scratch directory; if it does not show there, the code reaches the
            # file system in a way SimFS does not carry (e.g. encoding="locale", os-level
            # calls) and the real directory is the judge from now on
            real = _execute(ctx, case, EventLog(0), RealBackend)
            if {v.cls for v in out[0]} & {v.cls for v in real[0]}:
                return out[:3]
            bypassed = True
        if not bypassed:
            return out[:3]
        ctx["mode"] = "realdir"
        del log.lines[1:]
    v, stats, steps, _ = _execute(ctx, case, log, RealBackend)
    stats.inc("probe.judged_on_real_scratch_directory")
    return v, stats, steps


def _execute(ctx, case, log, backend_cls):
    rel, path = ctx["rel"], ctx["path"]
    stats = Stats()
    violations = []
    clock = SimClock(case["start"], case.get("tz_offset", 0))
    seam = ClockSeam(clock, rel)
    model_page = case["page"]
    first_ts, last_ts = clock.now, clock.now

    def viol(cls, msg, fp):
        violations.append(Violation(PROP, cls, msg, fp))

    be = backend_cls(ctx, case["page"])
    seam.install()
    try:
        for k, st in enumerate(case["steps"]):
            clock.now += st["jump"]
            first_ts, last_ts = min(first_ts, clock.now), max(last_ts, clock.now)
            stats.inc("fault.clock_jump." + st.get("jump_kind", "explicit")
                      if st["jump"] else "fault.clock_jump.none")
            data = {"name": st["name"]}
            if st["version"] is not None:
                data["new_version"] = st["version"]
            expected, writes = model_update(model_page, st["name"], st["version"],
                                            clock.now + clock.tz_offset)
            shape = header_shape(model_page)
            exc = None
            be.before()
            try:
                rel.update_manpage(data)
            except BaseException as e:  # noqa
                exc = e
            after_s, wrote, unclosed = be.after()
            if be.bypassed:
                break
            action = ("other-name" if st["name"] != "qrcode" else
                      "missing" if model_page is None else
                      "write" if writes else
                      "noop-same" if shape.startswith("hdr") else "noop-nohdr")
            stats.inc("action." + action)
            stats.add("tuples", (shape, action, st.get("jump_kind", "explicit")))
            log.ev("step", k, st["name"], repr(st["version"]), "t=%d" % clock.now,
                   action, "exc=%s" % type(exc).__name__ if exc else "ok",
                   "wrote=%s" % bool(wrote), core.short_hash(after_s or ""))
            fp = f"{action}/{shape.split('@')[0]}"
            if model_page is None and st["name"] == "qrcode":
                # read error must propagate and must not create the page
                stats.inc("fault.file_missing")
                if not isinstance(exc, FileNotFoundError):
                    viol("C20/missing-page-not-propagated",
                         f"step {k}: page missing, got {exc!r}", fp)
                if wrote or after_s is not None:
                    viol("C20/write-on-read-error", f"step {k}: wrote {wrote}", fp)
                continue
            if exc is not None:
                viol("C20/unexpected-exception",
                     f"step {k}: {type(exc).__name__}: {exc}", fp)
                break
            if after_s != expected:
                cls = ("C20/page-differs-from-model" if writes else
                       "C20/page-changed-in-noop-case")
                viol(cls, f"step {k} ({action}): page {after_s!r} != model {expected!r}", fp)
            if not writes and wrote:
                viol("C20/write-in-noop-case",
                     f"step {k} ({action}): page written although nothing was due: "
                     f"{[tuple(w[:3]) for w in wrote][:3]}", fp)
            if writes and not wrote:
                viol("C20/no-write-when-change-due", f"step {k}", fp)
            if writes:
                stats.inc("probe.date_" + ("1digit" if model_date(clock.now + clock.tz_offset)[1]
                                           == " " else "2digit"))
                if model_date(clock.now + clock.tz_offset) != model_date(clock.now):
                    stats.inc("probe.local_date_differs_from_utc_date")
                if unclosed:
                    stats.inc("probe.unclosed_handle")
            if violations:
                break
            model_page = after_s   # continue from the real page (== expected here)
    finally:
        seam.uninstall()
        be.close()
    stats.inc("clock_reads", clock.reads)
    stats.inc("sim_seconds_span", int(last_ts - first_ts))
    stats.counters["sim_ts_min"] = int(first_ts)
    stats.counters["sim_ts_max"] = int(last_ts)
    stats.inc("backend." + be.name)
    return violations, stats, len(case["steps"]), be.bypassed


def is_nontrivial(case):
    if case["page"] is None:
        return False
    return any(st["name"] == "qrcode" for st in case["steps"]) and \
        any(l.startswith(".TH ") for l in split_lines(case["page"]))


def run_index(ctx, prop, tier, master, idx, opts):
    seed = core.derive_seed(master, prop, idx)
    import random
    rng = random.Random(seed)
    case = generate(rng, tier, opts)
    log = EventLog(seed)
    violations, stats, steps = execute(ctx, case, log)
    stats.inc("runs")
    if is_nontrivial(case):
        stats.add("nontrivial", core.short_hash(case))
    # ts min/max do not merge by addition: move to sets
    stats.add("ts", stats.counters.pop("sim_ts_min"))
    stats.add("ts", stats.counters.pop("sim_ts_max"))
    sample = case if idx < 64 else None
    return core.RunOutcome(idx, seed, log.digest(), violations, case, stats, sample, steps)


# --------------------------------------------------------------------------
# minimisation
# --------------------------------------------------------------------------

def _fails_same(ctx, case, key):
    if core.min_expired():
        return False
    v, _, _ = execute(ctx, case, EventLog(0))
    return any(x.key() == key for x in v)


def minimise(ctx, case, violation):
    key = violation.key()
    case = dict(case)
    # 1. steps
    case["steps"] = core.ddmin(case["steps"],
                               lambda s: bool(s) and _fails_same(ctx, dict(case, steps=s), key))
    # 2. page lines
    if case["page"]:
        lines = split_lines(case["page"])
        lines = core.ddmin(lines, lambda ls: _fails_same(ctx, dict(case, page="".join(ls)), key))
        case["page"] = "".join(lines)
    if case.get("tz_offset"):
        t = dict(case, tz_offset=0)
        if _fails_same(ctx, t, key):
            case = t
    # 3. zero the jumps where possible
    for i, st in enumerate(case["steps"]):
        if st["jump"]:
            trial = [dict(s) for s in case["steps"]]
            trial[i]["jump"] = 0
            trial[i]["jump_kind"] = "none"
            if _fails_same(ctx, dict(case, steps=trial), key):
                case["steps"] = trial
    return case


def confirm(ctx, case, violation):
    """Re-judge the (minimised) violating history on the *real* scratch directory
    (real open()/os calls, only the clock simulated).  -> None when the same
    class shows there too, else a description: the simulated file system is then
    being by-passed and the finding must not be reported as a violation."""
    v, _, _, _ = _execute(ctx, case, EventLog(0), RealBackend)
    classes = {x.cls for x in v}
    if violation.cls in classes:
        return None
    return (f"the simulated file system shows {violation.cls} but the same history on a real "
            f"directory gives {sorted(classes) or 'no violation'}; a seam is being by-passed")


def coverage(merged, tier):
    st = merged["stats"]
    ts = sorted(st.sets.get("ts", {0}))
    span_days = (ts[-1] - ts[0]) / DAY if ts else 0
    return {
        "evaluations": merged["runs"],
        "distinct_nontrivial": st.distinct("nontrivial"),
        "rule": ("one evaluation = one seeded history of 1-5 update_manpage() invocations on "
                 "one evolving simulated page with the simulated clock jumping between "
                 "invocations; non-trivial = the page has at least one '.TH '-prefixed line "
                 "and at least one invocation is for package 'qrcode'; distinct by hash of "
                 "(page, steps)"),
        "samples": merged["samples"][:3],
        "invocations": merged["steps"],
        "actions": st.group("action."),
        "file_backend_runs": st.group("backend."),
        "faults_fired": st.group("fault."),
        "probes": st.group("probe."),
        "distinct_interleavings_or_states": {
            "measure": "distinct (header shape, action, clock-jump kind) tuples",
            "count": st.distinct("tuples")},
        "simulated_time": {
            "earliest": model_date(ts[0]) if ts else None,
            "latest": model_date(ts[-1]) if ts else None,
            "span_days_between_extremes": round(span_days, 1),
            "sum_of_per_run_spans_days": round(st.count("sim_seconds_span") / DAY, 1)},
        "components": {
            "real": ["qrcode.release.update_manpage", "re", "str/list ops",
                     "datetime.strftime (real formatting of the simulated instant)"],
            "stub": ["release.py is loaded from a private copy of the working tree's file so "
                     "that the page path it computes lies in a scratch directory",
                     "builtins.open/io.open for that path -> SimFS (in-memory); if the code "
                     "is seen to reach the file system without open(), the worker falls "
                     "back to judging on the real scratch directory (mtime / listing)",
                     "every name in release.py bound to the datetime module, the datetime/date "
                     "classes or a time function -> fakes reading SimClock; "
                     "sys.modules['datetime'] likewise for imports made at call time",
                     "time.time/localtime/gmtime/strftime -> SimClock"]},
    }


ASSUMPTIONS = [
    "pages are LF-terminated ASCII as the property's quantifier states; versions contain "
    "no double quote and no newline; when a page carries two header-shaped lines (8% of "
    "pages with a header) 'the header line' is the first one, as in roff",
    "the simulated local zone is UTC or a fixed offset (half of the runs); 'today' is the "
    "local date; the C locale's month abbreviations apply",
    "torn / partial writes are not injected: the property promises no atomicity",
    "the date written is the simulated wall-clock date at the invocation that changes "
    "the version (format: day without leading zero, abbreviated month, 4-digit year)",
]
