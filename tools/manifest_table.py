"""Checks beyond C20 are registered here as they are built."""

HIST_NOTE = ("Trusts: the library itself as reference (fresh object, pristine forked process) - "
             "a differential oracle that cannot see a defect present in fresh objects too; Pillow, "
             "pypng, xml.etree and decimal run for real and are assumed deterministic; the tiny "
             "abstract model in sim/histsim.py (Model) that tracks public calls only. Histories are "
             "sampled (stratified over all ordered triples of a 14-op alphabet, seeded beyond), "
             "not enumerated.")


def extend(register, PENDING):
    register("C11", "histsim",
      "deterministic simulation: seeded operation-and-fault histories on 1-3 objects from cold/warm/pre-used process caches, every compile refined against a fresh object in a pristine forked process, canary epilogue",
      "Seeded search over call histories (add_data, clear, make, every attribute assignment, version read, best_fit, every renderer with injected stream faults, caller scribbling on returned matrices, other objects compiling) starting from cold, warm or pre-used process-wide caches. After every operation that compiles (explicitly or lazily) the aged object's symbol, resulting version, raised error and rendered bytes are compared with what a brand-new object built from the model's (data, version, level, mask) does in a process that has produced nothing; a canary object per touched version is compiled at the end in the aged process. This is the level the property needs - it quantifies over histories, which only a controlled sequence generator with a history-free reference can reach - and it is sampling, not proof.",
      HIST_NOTE, "DESIGN.md 3.2")
    register("C15", "histsim",
      "deterministic simulation: simulated terminal streams (tty flag, write/flush faults, stdout substitution) inside seeded object histories; output read back by an independent glyph/escape reader",
      "Every print_ascii (plain, invert, tty) and print_tty call inside seeded histories writes to a simulated terminal; the recorded text is turned back into a matrix by a small reader that knows only the half-block glyph and ANSI colour conventions and must equal the object's symbol framed by the configured border (one module for print_tty). Lazy compilation is checked against the pristine fresh-object reference; non-tty refusal must precede any write or flush; calls aborted by injected write errors must leave no residue for the next call.",
      HIST_NOTE + " The glyph reader (sim/readback.py) is trusted; the spare half text row is unconstrained.",
      "DESIGN.md 3.4")
    register("C16", "histsim",
      "deterministic simulation: get_matrix() invariants (size, centre, frame, lazy compile) evaluated at every call inside seeded object histories with caller scribbling and border reassignment",
      "Every get_matrix() call in every explored history is checked cell by cell: square of side 17+4v+2*border, centre equal to the object's symbol, frame all light, border 0 equal to the bare symbol, and - when data changed since the last compile - the symbol equal to the pristine fresh-object reference. Borders 0-9 are assigned at construction and mid-history, callers scribble on returned matrices between calls.",
      HIST_NOTE, "DESIGN.md 3.3")
    register("C18", "histsim",
      "deterministic simulation: boundary and non-integer values offered through constructor and mid-history assignment inside seeded object histories; accept/reject decisions and a monitor on every output-producing call",
      "Seeded values around every boundary (version -1,0,1,40,41,255; mask -1,0,7,8,'3',2.0,[1]; border -4..9; box_size -10..10) are offered at construction and by assignment at arbitrary points of a history. Out-of-range values must raise ValueError/TypeError at that point (box_size at the latest in make_image) and must not take effect (read-back plus later compiles matching the unchanged model); in-range values must be accepted and honoured by later output.",
      HIST_NOTE + " In-range is the property's own statement (sim/histsim.py in_range).",
      "DESIGN.md 3.5")
    register("C17", "clisim",
      "deterministic simulation of the qr command's process environment (argv bytes, chunked binary stdin, tty/pipe stdout, in-memory --output, exit status); every artefact decoded by an independent ISO 18004 reader; stdout-vs---output pairing",
      "The real console_scripts.main() runs in a forked child with every environment input under the simulator's control: argument bytes as the OS hands them over (surrogateescape) or binary stdin delivered in seeded short reads through a real BufferedReader, stdout as pipe or tty (text layer and buffer over one recorded raw end, optional short writes), os.isatty from a simulated fd table, --output into an in-memory file system, exit status as the interpreter would compute it. The artefact (PNG via Pillow, SVG via the XML parser with shape/size checks per factory and drawer, half-block ASCII art) is turned into a matrix and decoded by an independent reader: recovered bytes must equal the input, recovered level the requested one, segment structure the requested threshold; --output bytes must equal stdout bytes for the same options; unknown factory/drawer/level must exit non-zero with nothing written anywhere.",
      "Trusts: sim/isoread.py (independent reader incl. RS syndrome check, validated at development time on all 160 version/level pairs), Pillow's PNG decoder, the stdlib XML parser, and that in-process main() with substituted sys.stdin/stdout/argv/os.isatty/open behaves as the installed console script (thorough tier cross-checks a sample against real subprocesses). Sampling, not enumeration.",
      "DESIGN.md 4.2")
    register("C19", "threadsim",
      "deterministic thread-schedule simulation: real caller threads baton-passed one at a time at sys.settrace line/opcode events and at every access to the two process-wide dictionaries; seeded strategies (access-targeted, location-uniform, PCT, random walk, stall) compiled to explicit pre-emption lists; results compared with solo runs in a pristine process; sequential canary afterwards",
      "2-4 real threads each run their own seeded program (construct, add_data, make, get_matrix, print_ascii, image render with SVG factories over-weighted) on private objects. Exactly one thread holds the baton; the seeded scheduler - not the OS or the GIL - decides at which line/opcode event or shared-dictionary access it yields and who continues, so one seed is one exactly repeatable interleaving, stored as (priority order, pre-emption list) and replayed without any PRNG. Every value each thread observed (symbol, matrix, text, image bytes or exception) must equal what the same program produces alone in a pristine process; afterwards brand-new objects for every version touched and one render per SVG factory, run sequentially in the aged process, must equal the pristine reference (leak check without naming internals). Sampling of schedules, not enumeration.",
      "Trusts: CPython with the GIL; pre-emption grain = line events in qrcode/** and xml/etree/ElementTree.py, opcode events in makeImpl / svg image __init__ / register_namespace, and accesses to precomputed_qr_blanks and ElementTree._namespace_map (rebound to recording dict subclasses); Pillow, pypng, decimal and re internals run as atomic steps; free-threaded builds out of scope; differential oracle (the library alone in a pristine process).",
      "DESIGN.md 4.1")
