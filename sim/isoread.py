"""isoread - a small, independent ISO/IEC 18004 reader (no error *correction*:
the symbols it reads are undamaged; error *detection* is done by checking the
Reed-Solomon syndromes of every block).

Written from the ISO text; shares no table or function with the library under
test.  matrix[r][c] is True for a dark module.
"""

from __future__ import annotations


class ReadError(Exception):
    pass


# ISO Table 9, in the compact form (EC codewords per block, number of blocks)
ECC_PER_BLOCK = {
    "L": [7, 10, 15, 20, 26, 18, 20, 24, 30, 18, 20, 24, 26, 30, 22, 24, 28, 30, 28, 28,
          28, 28, 30, 30, 26, 28, 30, 30, 30, 30, 30, 30, 30, 30, 30, 30, 30, 30, 30, 30],
    "M": [10, 16, 26, 18, 24, 16, 18, 22, 22, 26, 30, 22, 22, 24, 24, 28, 28, 26, 26, 26,
          26, 28, 28, 28, 28, 28, 28, 28, 28, 28, 28, 28, 28, 28, 28, 28, 28, 28, 28, 28],
    "Q": [13, 22, 18, 26, 18, 24, 18, 22, 20, 24, 28, 26, 24, 20, 30, 24, 28, 28, 26, 30,
          28, 30, 30, 30, 30, 28, 30, 30, 30, 30, 30, 30, 30, 30, 30, 30, 30, 30, 30, 30],
    "H": [17, 28, 22, 16, 22, 28, 26, 26, 24, 28, 24, 28, 22, 24, 24, 30, 28, 28, 26, 28,
          30, 24, 30, 30, 30, 30, 30, 30, 30, 30, 30, 30, 30, 30, 30, 30, 30, 30, 30, 30],
}
NUM_BLOCKS = {
    "L": [1, 1, 1, 1, 1, 2, 2, 2, 2, 4, 4, 4, 4, 4, 6, 6, 6, 6, 7, 8,
          8, 9, 9, 10, 12, 12, 12, 13, 14, 15, 16, 17, 18, 19, 19, 20, 21, 22, 24, 25],
    "M": [1, 1, 1, 2, 2, 4, 4, 4, 5, 5, 5, 8, 9, 9, 10, 10, 11, 13, 14, 16,
          17, 17, 18, 20, 21, 23, 25, 26, 28, 29, 31, 33, 35, 37, 38, 40, 43, 45, 47, 49],
    "Q": [1, 1, 2, 2, 4, 4, 6, 6, 8, 8, 8, 10, 12, 16, 12, 17, 16, 18, 21, 20,
          23, 23, 25, 27, 29, 34, 34, 35, 38, 40, 43, 45, 48, 51, 53, 56, 59, 62, 65, 68],
    "H": [1, 1, 2, 4, 4, 4, 5, 6, 8, 8, 11, 11, 16, 16, 18, 16, 19, 21, 25, 25,
          25, 34, 30, 32, 35, 37, 40, 42, 45, 48, 51, 54, 57, 60, 63, 66, 70, 74, 77, 81],
}
LEVEL_OF_BITS = {0b01: "L", 0b00: "M", 0b11: "Q", 0b10: "H"}
ALNUM = "0123456789ABCDEFGHIJKLMNOPQRSTUVWXYZ $%*+-./:"

# GF(256), x^8+x^4+x^3+x^2+1
_EXP = [0] * 512
_LOG = [0] * 256
_x = 1
for _i in range(255):
    _EXP[_i] = _x
    _LOG[_x] = _i
    _x <<= 1
    if _x & 0x100:
        _x ^= 0x11D
for _i in range(255, 512):
    _EXP[_i] = _EXP[_i - 255]


def _bch_rem(value, shift, gen, deg):
    rem = value << shift
    for i in range(rem.bit_length() - 1, deg - 1, -1):
        if rem >> i & 1:
            rem ^= gen << (i - deg)
    return rem


def format_codeword(level_bits, mask):
    data = level_bits << 3 | mask
    return ((data << 10) | _bch_rem(data, 10, 0x537, 10)) ^ 0x5412


def version_codeword(version):
    return (version << 12) | _bch_rem(version, 12, 0x1F25, 12)


def alignment_centres(version):
    if version == 1:
        return []
    size = 17 + 4 * version
    n = version // 7 + 2
    step = 26 if version == 32 else (version * 4 + n * 2 + 1) // (n * 2 - 2) * 2
    res = [6]
    pos = size - 7
    tail = []
    for _ in range(n - 1):
        tail.append(pos)
        pos -= step
    return res + tail[::-1]


def raw_codewords(version):
    bits = (16 * version + 128) * version + 64
    if version >= 2:
        n = version // 7 + 2
        bits -= (25 * n - 10) * n - 55
        if version >= 7:
            bits -= 36
    return bits // 8, bits % 8


def function_map(version):
    size = 17 + 4 * version
    f = [[False] * size for _ in range(size)]

    def box(r0, c0, h, w):
        for r in range(max(r0, 0), min(r0 + h, size)):
            for c in range(max(c0, 0), min(c0 + w, size)):
                f[r][c] = True

    box(0, 0, 9, 9)                 # finder + separator + format, top-left
    box(0, size - 8, 9, 8)          # top-right (+ format row 8)
    box(size - 8, 0, 8, 9)          # bottom-left (+ format col 8, dark module)
    for i in range(size):           # timing
        f[6][i] = True
        f[i][6] = True
    cs = alignment_centres(version)
    for r in cs:
        for c in cs:
            if (r == 6 and c == 6) or (r == 6 and c == size - 7) or (r == size - 7 and c == 6):
                continue
            box(r - 2, c - 2, 5, 5)
    if version >= 7:
        box(0, size - 11, 6, 3)
        box(size - 11, 0, 3, 6)
    return f


MASKS = [
    lambda r, c: (r + c) % 2 == 0,
    lambda r, c: r % 2 == 0,
    lambda r, c: c % 3 == 0,
    lambda r, c: (r + c) % 3 == 0,
    lambda r, c: (r // 2 + c // 3) % 2 == 0,
    lambda r, c: (r * c) % 2 + (r * c) % 3 == 0,
    lambda r, c: ((r * c) % 2 + (r * c) % 3) % 2 == 0,
    lambda r, c: ((r + c) % 2 + (r * c) % 3) % 2 == 0,
]


def read_format(m):
    size = len(m)
    pos1 = [(i, 8) for i in range(6)] + [(7, 8), (8, 8), (8, 7)] + \
           [(8, 14 - i) for i in range(9, 15)]
    pos2 = [(8, size - 1 - i) for i in range(8)] + [(size - 15 + i, 8) for i in range(8, 15)]
    words = []
    for pos in (pos1, pos2):
        w = 0
        for i, (r, c) in enumerate(pos):
            if m[r][c]:
                w |= 1 << i
        words.append(w)
    if words[0] != words[1]:
        raise ReadError(f"the two format information copies differ: {words[0]:015b} "
                        f"{words[1]:015b}")
    for lb in range(4):
        for mask in range(8):
            if format_codeword(lb, mask) == words[0]:
                return LEVEL_OF_BITS[lb], mask
    raise ReadError(f"format information {words[0]:015b} is not a BCH(15,5) codeword")


def check_function_patterns(m, version):
    size = len(m)

    def want_finder(r0, c0):
        for dr in range(-1, 8):
            for dc in range(-1, 8):
                r, c = r0 + dr, c0 + dc
                if not (0 <= r < size and 0 <= c < size):
                    continue
                ring = max(abs(dr - 3), abs(dc - 3))
                dark = ring in (0, 1, 3)
                if m[r][c] != dark:
                    raise ReadError(f"finder/separator module ({r},{c}) wrong")

    want_finder(0, 0)
    want_finder(0, size - 7)
    want_finder(size - 7, 0)
    for i in range(8, size - 8):
        if m[6][i] != (i % 2 == 0) or m[i][6] != (i % 2 == 0):
            raise ReadError(f"timing module at index {i} wrong")
    if not m[size - 8][8]:
        raise ReadError("dark module missing")
    cs = alignment_centres(version)
    for r0 in cs:
        for c0 in cs:
            if (r0 == 6 and c0 == 6) or (r0 == 6 and c0 == size - 7) or \
                    (r0 == size - 7 and c0 == 6):
                continue
            for dr in range(-2, 3):
                for dc in range(-2, 3):
                    dark = max(abs(dr), abs(dc)) != 1
                    if m[r0 + dr][c0 + dc] != dark:
                        raise ReadError(f"alignment pattern at ({r0},{c0}) wrong")
    if version >= 7:
        w = version_codeword(version)
        for i in range(18):
            bit = bool(w >> i & 1)
            a, b = size - 11 + i % 3, i // 3
            if m[b][a] != bit or m[a][b] != bit:
                raise ReadError(f"version information bit {i} wrong")


def _rs_syndromes_zero(block, ecc_len):
    for k in range(ecc_len):
        # evaluate at alpha^k (Horner, highest-degree coefficient first)
        acc = 0
        for cw in block:
            if acc:
                acc = _EXP[_LOG[acc] + k]
            acc ^= cw
        if acc:
            return False
    return True


def decode(matrix):
    """-> dict(version, level, mask, segments=[(mode, bytes)], payload, data_codewords)"""
    size = len(matrix)
    if size < 21 or (size - 17) % 4 or any(len(row) != size for row in matrix):
        raise ReadError(f"not a QR symbol size: {size}")
    m = [[bool(x) for x in row] for row in matrix]
    version = (size - 17) // 4
    if version > 40:
        raise ReadError("version > 40")
    level, mask = read_format(m)
    check_function_patterns(m, version)
    func = function_map(version)
    total, remainder = raw_codewords(version)
    mfun = MASKS[mask]
    # zig-zag
    bits = []
    right = size - 1
    upward = True
    while right >= 1:
        if right == 6:
            right = 5
        rows = range(size - 1, -1, -1) if upward else range(size)
        for r in rows:
            for c in (right, right - 1):
                if not func[r][c]:
                    bits.append(m[r][c] != mfun(r, c))
        upward = not upward
        right -= 2
    if len(bits) != total * 8 + remainder:
        raise ReadError(f"{len(bits)} data modules, expected {total * 8 + remainder}")
    if any(bits[total * 8:]):
        raise ReadError("remainder bits are not zero")
    raw = []
    for i in range(total):
        v = 0
        for b in bits[8 * i:8 * i + 8]:
            v = v << 1 | b
        raw.append(v)
    # de-interleave
    nblocks = NUM_BLOCKS[level][version - 1]
    ecc = ECC_PER_BLOCK[level][version - 1]
    short_len = total // nblocks
    nshort = nblocks - total % nblocks
    dlen = [short_len - ecc + (0 if j < nshort else 1) for j in range(nblocks)]
    blocks = [[] for _ in range(nblocks)]
    k = 0
    for i in range(max(dlen)):
        for j in range(nblocks):
            if i < dlen[j]:
                blocks[j].append(raw[k])
                k += 1
    for i in range(ecc):
        for j in range(nblocks):
            blocks[j].append(raw[k])
            k += 1
    if k != total:
        raise ReadError("codeword count mismatch")
    for j, blk in enumerate(blocks):
        if not _rs_syndromes_zero(blk, ecc):
            raise ReadError(f"block {j} of {nblocks} is not a Reed-Solomon codeword "
                            f"(version {version}-{level})")
    data = [cw for j in range(nblocks) for cw in blocks[j][:dlen[j]]]
    segments = parse_segments(data, version)
    return {"version": version, "level": level, "mask": mask, "segments": segments,
            "payload": b"".join(s[1] for s in segments), "data_codewords": data}


def parse_segments(data, version):
    nbits = len(data) * 8
    big = int.from_bytes(bytes(data), "big") if data else 0
    pos = 0

    def take(n):
        nonlocal pos
        if pos + n > nbits:
            raise ReadError("bit stream truncated inside a segment")
        v = (big >> (nbits - pos - n)) & ((1 << n) - 1)
        pos += n
        return v

    cls = 0 if version <= 9 else 1 if version <= 26 else 2
    segs = []
    while nbits - pos >= 4:
        mode = take(4)
        if mode == 0:
            break
        if mode == 1:
            n = take((10, 12, 14)[cls])
            out = []
            left = n
            while left >= 3:
                v = take(10)
                if v > 999:
                    raise ReadError("numeric group > 999")
                out.append("%03d" % v)
                left -= 3
            if left == 2:
                v = take(7)
                if v > 99:
                    raise ReadError("numeric group > 99")
                out.append("%02d" % v)
            elif left == 1:
                v = take(4)
                if v > 9:
                    raise ReadError("numeric group > 9")
                out.append("%d" % v)
            segs.append(("numeric", "".join(out).encode()))
        elif mode == 2:
            n = take((9, 11, 13)[cls])
            out = []
            left = n
            while left >= 2:
                v = take(11)
                if v >= 45 * 45:
                    raise ReadError("alphanumeric pair out of range")
                out.append(ALNUM[v // 45] + ALNUM[v % 45])
                left -= 2
            if left:
                v = take(6)
                if v >= 45:
                    raise ReadError("alphanumeric value out of range")
                out.append(ALNUM[v])
            segs.append(("alnum", "".join(out).encode()))
        elif mode == 4:
            n = take((8, 16, 16)[cls])
            segs.append(("byte", bytes(take(8) for _ in range(n))))
        else:
            raise ReadError(f"unsupported mode indicator {mode:04b}")
    return segs
