#!/venv/bin/python
"""Intake of an independently written property-breaking change.

usage: tools/intake_seed.py <src_dir with patch.diff demo.py meta.json> <seed-id> [--budget-s N] [--props C11,C16]

Confirms in a scratch worktree (removed afterwards) that (1) the patch applies
to /repo HEAD, (2) the repo's own test suite still passes with it, (3) the demo
fails with it and passes without it; then runs the targeted check(s) against
the patched tree (VERIF_REPO) and records everything in
/verif/seeded/<seed-id>/meta.json.
"""
import argparse, json, os, shutil, subprocess, sys, tempfile, time

HERE = os.path.dirname(os.path.dirname(os.path.abspath(__file__)))


def sh(cmd, **kw):
    return subprocess.run(cmd, capture_output=True, text=True, **kw)


def main():
    ap = argparse.ArgumentParser()
    ap.add_argument("src")
    ap.add_argument("seed_id")
    ap.add_argument("--budget-s", type=float, default=None)
    ap.add_argument("--props")
    ap.add_argument("--tier", default="quick")
    a = ap.parse_args()
    dst = os.path.join(HERE, "seeded", a.seed_id)
    os.makedirs(dst, exist_ok=True)
    for f in ("patch.diff", "demo.py", "meta.json"):
        shutil.copy(os.path.join(a.src, f), os.path.join(dst, f))
    meta = json.load(open(os.path.join(dst, "meta.json")))
    props = a.props.split(",") if a.props else [meta["property"]]
    patch = os.path.join(dst, "patch.diff")
    td = tempfile.mkdtemp(prefix="verif_seed_")
    wt = os.path.join(td, "w")
    sh(["git", "-C", "/repo", "worktree", "add", "--detach", "-q", wt, "HEAD"], check=True)
    env = dict(os.environ, PYTHONPATH=wt, PYTHONDONTWRITEBYTECODE="1")
    rec = {"repo_head": sh(["git", "-C", "/repo", "rev-parse", "--short", "HEAD"]).stdout.strip()}
    try:
        shutil.copy(os.path.join(dst, "demo.py"), os.path.join(wt, "_demo.py"))
        d0 = sh(["/venv/bin/python", "_demo.py"], cwd=wt, env=env, timeout=600)
        rec["demo_without_patch_rc"] = d0.returncode
        ap_ = sh(["git", "-C", wt, "apply", "--whitespace=nowarn", patch])
        rec["patch_applies"] = ap_.returncode == 0
        if ap_.returncode != 0:
            rec["patch_error"] = ap_.stderr[-400:]
        else:
            t = sh(["/venv/bin/python", "-m", "pytest", "-q", "-p", "no:cacheprovider",
                    "--timeout=900"], cwd=wt, env=env)
            rec["tests_with_patch"] = t.stdout.strip().splitlines()[-1] if t.stdout.strip() else ""
            rec["tests_pass_with_patch"] = t.returncode == 0
            d1 = sh(["/venv/bin/python", "_demo.py"], cwd=wt, env=env, timeout=600)
            rec["demo_with_patch_rc"] = d1.returncode
            rec["demo_with_patch_tail"] = (d1.stdout + d1.stderr).strip()[-300:]
            rec["confirmed"] = bool(rec["tests_pass_with_patch"] and d1.returncode != 0
                                    and d0.returncode == 0)
            rec["checks"] = {}
            for prop in props:
                t0 = time.time()
                cmd = [os.path.join(HERE, "check"), prop, "--tier", a.tier, "--no-selfcheck"]
                if a.budget_s:
                    cmd += ["--budget-s", str(a.budget_s)]
                c = sh(cmd, cwd=HERE, env=dict(os.environ, VERIF_REPO=wt,
                                               VERIF_EVIDENCE_DIR=os.path.join(td, "ev"),
                                               VERIF_REPLAY_DIR=os.path.join(td, "rp")))
                lines = [l for l in c.stdout.splitlines() if l.startswith("violation:")]
                rec["checks"][prop] = {
                    "cmd": " ".join(cmd[len(cmd) - (len(cmd) - 0):]).replace(HERE + "/", "./"),
                    "rc": c.returncode, "wall_s": round(time.time() - t0, 1),
                    "violations": [l[:400] for l in lines[:3]],
                    "summary": c.stdout.strip().splitlines()[-1][:300] if c.stdout.strip() else c.stderr[-300:]}
                # keep the minimised replay next to the seed
                rp = os.path.join(td, "rp")
                if os.path.isdir(rp):
                    for f in sorted(os.listdir(rp))[:2]:
                        shutil.copy(os.path.join(rp, f), os.path.join(dst, "replay-" + f))
    finally:
        sh(["git", "-C", "/repo", "worktree", "remove", "--force", wt])
        shutil.rmtree(td, ignore_errors=True)
    meta["intake"] = rec
    json.dump(meta, open(os.path.join(dst, "meta.json"), "w"), indent=1)
    print(json.dumps({k: v for k, v in rec.items() if k != "demo_with_patch_tail"}, indent=1))


if __name__ == "__main__":
    main()
