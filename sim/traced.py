"""Recording container types for process-wide state.

Every module-level and class-level ``dict`` / ``list`` / ``set`` of the library
(and ElementTree's namespace map) is rebound to one of these subclasses.  They
behave exactly like the builtin, but call ``HOOKS.before(container, kind, key)``
before and ``HOOKS.after(container)`` after every access made through Python
code.  A container counts as *shared mutable state* from its first write on
(``_written``); the scheduler ignores accesses to containers nobody has ever
written (constant tables).
"""

from __future__ import annotations

import sys
import types


class _Hooks:
    before = None
    after = None


HOOKS = _Hooks()


def _mk(base, reads, writes):
    ns = {"_name": "?", "_written": False}

    def make(meth, is_write):
        orig = getattr(base, meth)

        def wrapper(self, *a, **kw):
            if is_write:
                self._written = True
            h = HOOKS.before
            if h is None or not self._written:
                return orig(self, *a, **kw)
            key = a[0] if a and isinstance(a[0], (int, str, bytes, type(None), slice)) else None
            h(self, meth, key)
            try:
                return orig(self, *a, **kw)
            finally:
                ha = HOOKS.after
                if ha is not None:
                    ha(self)
        wrapper.__name__ = meth
        return wrapper

    for m in reads:
        ns[m] = make(m, False)
    for m in writes:
        ns[m] = make(m, True)
    return ns


class TracedDict(dict):
    pass


class TracedList(list):
    pass


class TracedSet(set):
    pass


for _cls, _base, _reads, _writes in (
    (TracedDict, dict,
     ["__getitem__", "__contains__", "get", "items", "keys", "values", "__iter__", "__len__",
      "copy"],
     ["__setitem__", "__delitem__", "pop", "popitem", "setdefault", "update", "clear",
      "__ior__"]),
    (TracedList, list,
     ["__getitem__", "__contains__", "__iter__", "__len__", "index", "count", "copy",
      "__reversed__"],
     ["__setitem__", "__delitem__", "append", "extend", "insert", "pop", "remove", "clear",
      "reverse", "sort", "__iadd__", "__imul__"]),
    (TracedSet, set,
     ["__contains__", "__iter__", "__len__", "copy", "issubset", "issuperset", "isdisjoint"],
     ["add", "discard", "remove", "pop", "clear", "update", "difference_update",
      "intersection_update", "symmetric_difference_update", "__ior__", "__iand__", "__isub__",
      "__ixor__"]),
):
    for _k, _v in _mk(_base, _reads, _writes).items():
        setattr(_cls, _k, _v)

_WRAP = {dict: TracedDict, list: TracedList, set: TracedSet}
_KEEP = []      # originals stay alive so that ids are never reused


def install(prefix="qrcode", extra=()):
    """Rebind every module-level / class-level / default-argument dict, list and
    set of `prefix.*` modules to a recording subclass.  `extra` = [(module,
    attribute name, display name)].  Returns the display names."""
    memo = {}
    found = []

    def wrap(obj, name):
        w = memo.get(id(obj))
        if w is None:
            w = _WRAP[type(obj)](obj)
            w._name = name
            w._written = False
            memo[id(obj)] = w
            _KEEP.append(obj)
            found.append(name)
        return w

    def wrap_defaults(fn, name):
        d = fn.__defaults__
        if d and any(type(x) in _WRAP for x in d):
            fn.__defaults__ = tuple(wrap(x, f"{name}.<default{i}>") if type(x) in _WRAP else x
                                    for i, x in enumerate(d))
        kd = fn.__kwdefaults__
        if kd:
            for k, x in list(kd.items()):
                if type(x) in _WRAP:
                    kd[k] = wrap(x, f"{name}.<default {k}>")

    def is_lib_instance(v):
        t = type(v)
        m = getattr(t, "__module__", "") or ""
        return (m == prefix or m.startswith(prefix + ".")) \
            and (hasattr(v, "__dict__") or hasattr(t, "__slots__")) \
            and not isinstance(v, (type, types.FunctionType, types.ModuleType, tuple))

    def wrap_instance(obj, name):
        # containers held in attributes of a module-level / class-level object of a library
        # class (one level deep): a lazily extended table, a scratch buffer, ...
        items = []
        try:
            items = list(vars(obj).items())
        except TypeError:
            pass
        for klass in type(obj).__mro__:
            sl = klass.__dict__.get("__slots__", ())
            for ak in ((sl,) if isinstance(sl, str) else sl):
                if hasattr(obj, ak):
                    items.append((ak, getattr(obj, ak)))
        for ak, av in items:
            if type(av) in _WRAP:
                try:
                    setattr(obj, ak, wrap(av, f"{name}.{ak}"))
                except (AttributeError, TypeError):
                    pass

    def wrap_function_state(fn, name):
        wrap_defaults(fn, name)
        for ak, av in list(vars(fn).items()):          # function attributes (f.cache = {})
            if type(av) in _WRAP:
                setattr(fn, ak, wrap(av, f"{name}.{ak}"))
        for i, cell in enumerate(fn.__closure__ or ()):  # closure cells
            try:
                cv = cell.cell_contents
            except ValueError:
                continue
            if type(cv) in _WRAP:
                cell.cell_contents = wrap(cv, f"{name}.<closure {fn.__code__.co_freevars[i]}>")
            elif is_lib_instance(cv):
                wrap_instance(cv, f"{name}.<closure {fn.__code__.co_freevars[i]}>")

    for modname, mod in sorted(sys.modules.items()):
        if mod is None or not (modname == prefix or modname.startswith(prefix + ".")):
            continue
        if ".tests" in modname:
            continue
        for k, v in list(vars(mod).items()):
            if k.startswith("__"):
                continue
            if type(v) in _WRAP:
                setattr(mod, k, wrap(v, f"{modname}.{k}"))
            elif isinstance(v, type) and getattr(v, "__module__", None) == modname \
                    and not issubclass(v, tuple):
                for ck, cv in list(vars(v).items()):
                    if ck.startswith("__"):
                        continue
                    if type(cv) in _WRAP:
                        setattr(v, ck, wrap(cv, f"{modname}.{v.__name__}.{ck}"))
                    elif isinstance(cv, types.FunctionType):
                        wrap_function_state(cv, f"{modname}.{v.__name__}.{ck}")
                    elif isinstance(cv, (classmethod, staticmethod)):
                        wrap_function_state(cv.__func__, f"{modname}.{v.__name__}.{ck}")
                    elif is_lib_instance(cv):
                        wrap_instance(cv, f"{modname}.{v.__name__}.{ck}")
            elif isinstance(v, types.FunctionType) and v.__module__ == modname:
                wrap_function_state(v, f"{modname}.{k}")
            elif is_lib_instance(v):
                wrap_instance(v, f"{modname}.{k}")
    for mod, attr, name in extra:
        v = getattr(mod, attr, None)
        if type(v) in _WRAP:
            setattr(mod, attr, wrap(v, name))
    return found
