"""histsim - object-history simulator for C11, C15, C16, C18.

One run = one explicit *case*: an initial state of the process-wide caches and
a list of public-API operations (with their stream faults) on 1-3 QRCode
objects.  The run executes in a child forked from a pristine image of the
library; after every operation the oracles compare the aged object with what a
*fresh object in a pristine process* does for the same abstract state (data,
starting version, level, mask, border, box size), and read terminal output and
returned matrices back structurally.

The model tracks public calls only; it never learns a setting by looking at
the aged object.
"""

from __future__ import annotations

import errno
import os
import random
import sys

from . import core
from .core import Violation, Stats, EventLog, enc_payload, dec_payload
from .env import SimStream, SimByteSink
from .forkserver import ForkServer
from . import readback

WATCHDOG_S = 900
LEVELS = {"L": 1, "M": 0, "Q": 3, "H": 2}
LEVEL_NAMES = {v: k for k, v in LEVELS.items()}
FACTORIES = ["default", "pil", "pypng", "svg", "svgpath", "svgfrag", "styled"]
MODE_NUMBER, MODE_ALNUM, MODE_BYTE = 1, 2, 4
EMPTY = (b"",)            # packed form of the never-compiled matrix [[]]


# --------------------------------------------------------------------------
# small helpers shared by aged side and reference side
# --------------------------------------------------------------------------

def pack(mods):
    try:
        return tuple(bytes(2 if x is None else (1 if x else 0) for x in row) for row in mods)
    except TypeError:
        return ("unpackable", repr(mods)[:200])


def unpack(p):
    return [[None if x == 2 else bool(x) for x in row] for row in p]


def has_none(p):
    return any(2 in row for row in p)


def exc_sig(e):
    return (type(e).__name__, str(e))


def injected_sig(err):
    import os
    return exc_sig(OSError(err, os.strerror(err)))


def dec_value(v):
    """JSON -> python value for attribute assignments / ctor args."""
    if isinstance(v, dict):
        if "str" in v:
            return v["str"]
        if "float" in v:
            return float(v["float"])
        if "list" in v:
            return list(v["list"])
        raise ValueError(v)
    return v


def factory_class(name):
    if name == "default":
        return None            # make_image() picks the object's / the library's default
    if name == "pil":
        from qrcode.image.pil import PilImage
        return PilImage
    if name == "pypng":
        from qrcode.image.pure import PyPNGImage
        return PyPNGImage
    if name == "svg":
        from qrcode.image.svg import SvgImage
        return SvgImage
    if name == "svgpath":
        from qrcode.image.svg import SvgPathImage
        return SvgPathImage
    if name == "svgfrag":
        from qrcode.image.svg import SvgFragmentImage
        return SvgFragmentImage
    if name == "styled":
        from qrcode.image.styledpil import StyledPilImage
        return StyledPilImage
    raise ValueError(name)


STYLED_DRAWERS = ["square", "gapped", "circle", "rounded", "vbars", "hbars"]
STYLED_MASKS = ["solid", "radial", "square", "horizontal", "vertical"]


def resolve_image_kwargs(fname, kwargs):
    """Keyword arguments of make_image as they travel in a case (names) ->
    real objects.  SVG drawers are aliases (strings) and stay as they are."""
    kw = dict(kwargs)
    if fname == "styled":
        from qrcode.image.styles.moduledrawers import pil as pd
        from qrcode.image.styles import colormasks as cm
        dcls = {"square": pd.SquareModuleDrawer, "gapped": pd.GappedSquareModuleDrawer,
                "circle": pd.CircleModuleDrawer, "rounded": pd.RoundedModuleDrawer,
                "vbars": pd.VerticalBarsDrawer, "hbars": pd.HorizontalBarsDrawer}
        mcls = {"solid": cm.SolidFillColorMask, "radial": cm.RadialGradiantColorMask,
                "square": cm.SquareGradiantColorMask,
                "horizontal": cm.HorizontalGradiantColorMask,
                "vertical": cm.VerticalGradiantColorMask}
        for k in ("module_drawer", "eye_drawer"):
            if isinstance(kw.get(k), str):
                kw[k] = dcls[kw[k]]()
        if isinstance(kw.get("color_mask"), str):
            kw["color_mask"] = mcls[kw["color_mask"]]()
    return kw


def build_object(ctor, segs):
    """Fresh object from the abstract state (reference side, and `new` on the
    aged side).  box_size that the constructor would refuse is assigned after
    construction - that is the history that led to it on the aged side too."""
    import qrcode
    from qrcode.util import QRData
    version, level, mask, border, box = ctor
    box_ok = isinstance(box, int) and box >= 1
    qr = qrcode.QRCode(version=version, error_correction=level, mask_pattern=mask,
                       border=border, box_size=box if box_ok else 1)
    if not box_ok:
        qr.box_size = box
    for s in segs:
        apply_seg(qr, s)
    return qr


def apply_seg(qr, s):
    from qrcode.util import QRData
    if s[0] == "d":
        qr.add_data(s[1], optimize=s[2])
    else:
        qr.add_data(QRData(s[1], mode=s[2]))


def version_after(qr):
    v = getattr(qr, "_version", "absent")
    if v == "absent":       # refactored away: fall back to the public read
        try:
            return qr.version
        except Exception:
            return None
    return v


def do_op(qr, op):
    """Apply one observable operation; returns (exc, ret, out).  Used on both
    sides so that both see exactly the same call."""
    kind = op[0]
    exc = ret = out = None
    stream = None
    try:
        if kind == "make":
            qr.make(fit=op[1])
        elif kind == "read_version":
            ret = qr.version
        elif kind == "best_fit":
            ret = qr.best_fit(start=op[1])
        elif kind == "best_mask_pattern":
            ret = qr.best_mask_pattern()
        elif kind == "get_matrix":
            ret = pack(qr.get_matrix())
        elif kind == "print_ascii":
            _, tty, invert, stream_tty = op
            stream = SimStream(tty=stream_tty)
            qr.print_ascii(out=stream, tty=tty, invert=invert)
        elif kind == "print_tty":
            stream = SimStream(tty=op[1])
            qr.print_tty(out=stream)
        elif kind == "image":
            _, fname, kwargs = op
            img = qr.make_image(factory_class(fname), **resolve_image_kwargs(fname, kwargs))
            sink = SimByteSink()
            img.save(sink)
            out = sink.getvalue()
        elif kind == "make_then":
            qr.make()
            return do_op(qr, op[1])
        elif kind == "add_seg":
            apply_seg(qr, op[1])
        elif kind == "noop":
            pass
        else:
            raise core.HarnessError(f"unknown reference op {op!r}")
    except core.HarnessError:
        raise
    except Exception as e:  # noqa
        exc = exc_sig(e)
    if stream is not None:
        out = stream.text()
    return exc, ret, out


def ref_handler(spec):
    """Runs in a pristine forked process: fresh object, one operation.  A fresh
    object that cannot even be built or pre-compiled from in-range settings is
    reported as such (the aged side then differs), never as a harness failure."""
    _, ctor, segs, pre, op = spec
    try:
        if pre is not None:
            pctor, psegs, pfit, border_now, box_now = pre
            qr = build_object(pctor, psegs)
            qr.make(fit=pfit)
            qr.border = border_now
            qr.box_size = box_now
        else:
            qr = build_object(ctor, segs)
    except Exception as e:  # noqa
        return {"exc": ("fresh-object-setup-failed", f"{type(e).__name__}: {e}"),
                "ret": None, "out": None, "mods": EMPTY, "version_after": None}
    exc, ret, out = do_op(qr, op)
    return {"exc": exc, "ret": ret, "out": out, "mods": pack(qr.modules),
            "version_after": version_after(qr)}


# --------------------------------------------------------------------------
# the model of one object (public calls only)
# --------------------------------------------------------------------------

class Model:
    def __init__(self, ctor):
        self.version, self.level, self.mask, self.border, self.box = ctor
        self.segs = []
        self.need = "yes"          # will the next renderer compile? yes | no | unsure
        self.cur = EMPTY           # what qr.modules is believed to be (packed)
        self.sym_version = None    # version of the symbol now in modules
        self.compiled_version = None   # version of the last successful compile
        self.compiled = None       # (ctor, segs, fit) of the last successful compile
        self.scribbled = False
        self.last_failed = False
        self.changed_since_compile = False
        self.after_fault = False

    def ctor(self):
        return (self.version, self.level, self.mask, self.border, self.box)

    def spec(self, op):
        return ("obj", self.ctor(), tuple(self.segs), None, op)

    def spec_rendered(self, op):
        c, s, fit = self.compiled
        return ("obj", None, None, (c, s, fit, self.border, self.box), op)

    def abstract(self, warm):
        c = self.compiled
        if c is None:
            vrel = lrel = "-"
        else:
            cv = self.compiled_version
            vrel = ("none" if self.version is None else "-" if cv is None else
                    "same" if self.version == cv else
                    "lower" if self.version < cv else "higher")
            lrel = "same" if self.level == c[0][1] else "changed"
        return (c is not None, self.need, vrel, lrel,
                "auto" if self.mask is None else "set", warm, self.last_failed)


def numeric_string(value):
    return isinstance(value, str) and value.lstrip("+-").isdigit()


def in_range(attr, value):
    """The property's own statement of validity -> (valid, expected exception
    type names when invalid)."""
    if attr != "mask_pattern" and numeric_string(value):
        # a number spelled as a string: the statement is silent on the type, but its
        # *value* is either in range or not.  Out of range -> must be rejected (either
        # exception type); in range -> see op_set/op_new (accept or reject, both fine)
        ok, _ = in_range(attr, int(value))
        return ok, ("ValueError", "TypeError")
    if attr == "version":
        if value is None:
            return True, ()
        return (isinstance(value, int) and 1 <= value <= 40), ("ValueError",)
    if attr == "mask_pattern":
        if value is None:
            return True, ()
        if not isinstance(value, int):
            return False, ("TypeError",)
        return 0 <= value <= 7, ("ValueError",)
    if attr == "border":
        return (isinstance(value, int) and value >= 0), ("ValueError",)
    if attr == "box_size":
        return (isinstance(value, int) and value >= 1), ("ValueError",)
    raise ValueError(attr)


# --------------------------------------------------------------------------
# executing a case (in the run child)
# --------------------------------------------------------------------------

class _Stop(Exception):
    pass


class Run:
    def __init__(self, case, ref):
        self.case, self.ref = case, ref
        self.log = EventLog(case.get("seed", 0))
        self.stats = Stats()
        self.violations = []
        self.objs = {}          # slot -> (qr, Model)
        self.streams = {}       # id -> SimStream re-used across calls
        self.touched = set()    # versions some object of this process compiled
        self.steps = 0
        self.shape = []         # op kinds, for the history hash / fingerprints
        self.nontrivial = {"C11": False, "C15": False, "C16": False, "C18": False}
        self._pending = None
        self.resynced = False

    # -- bookkeeping -------------------------------------------------------
    def viol(self, prop, cls, msg, fp, soft=False, cont=False):
        """Record a violation.  Hard violations end the run at once (the model
        is no longer in step with the object); soft ones (structural read-back
        checks, which do not touch the model) let the current operation finish
        its remaining checks first so that every property it breaks is seen."""
        if not any(v.key() == (prop, cls) for v in self.violations):
            self.violations.append(Violation(prop, cls, msg, fp))
        if cont:
            # the model is still in step (it never adopted the offending value): go on,
            # later operations show the consequences under the other properties
            self.resynced = True
            return
        if not soft:
            raise _Stop()

    def fp(self, m, opkind):
        a = m.abstract("-")
        return f"{opkind}|need={a[1]}|v={a[2]}|l={a[3]}|mask={a[4]}"

    def note_compile(self, m, ver):
        warm = ver in self.touched
        self.stats.inc("probe.compile_on_%s_cache" % ("warm" if warm else "cold"))
        if ver is not None:
            self.touched.add(ver)

    # -- cache prologue ----------------------------------------------------
    def prologue(self):
        import qrcode
        c = self.case.get("cache") or {"kind": "cold"}
        self.stats.inc("cache." + c["kind"])
        if c["kind"] == "cold":
            return
        for v in c.get("versions", []):
            q = qrcode.QRCode(version=v, mask_pattern=(v % 8), border=0)
            q.add_data("warm%d" % v)
            q.make(fit=False)
            self.touched.add(v)
            if c["kind"] == "preused":
                mat = q.get_matrix()
                for row in mat:
                    for i in range(len(row)):
                        row[i] = not row[i]
                self.stats.inc("fault.caller_scribble_prologue")
        self.log.ev("prologue", c["kind"], c.get("versions"))

    # -- operations --------------------------------------------------------
    def _fractional_border(self, qr, value, exc, channel):
        """A border that is not an integer: the statement is silent on the
        conversion, so rejection (ValueError/TypeError) and acceptance are both
        fine - but an accepted one must *take effect* as an integer >= 0.
        -> effective border, or None when rejected."""
        fp = f"{channel}|border={value!r}"
        self.nontrivial["C18"] = True
        self.stats.inc(f"c18.{channel}.border.fractional")
        self.stats.add("c18.tuples", ("border", repr(value), channel))
        if exc is not None:
            if type(exc).__name__ not in ("ValueError", "TypeError"):
                self.viol("C18", f"C18/wrong-exception-at-{'construction' if channel == 'ctor' else 'assignment'}",
                          f"border = {value!r} raised {exc!r}", fp)
            return None
        try:
            eff = qr.border
        except Exception as e:  # noqa
            eff = repr(e)
        if not isinstance(eff, int) or isinstance(eff, bool) or eff < 0 or \
                (value >= 0 and abs(eff - value) >= 1):
            self.viol("C18", "C18/out-of-range-border-took-effect",
                      f"border = {value!r} was accepted and the border now reads {eff!r}", fp)
        return eff

    def op_new(self, op):
        import qrcode
        kw = {k: dec_value(v) for k, v in op["kw"].items()}
        frac_border = isinstance(kw.get("border"), float)
        full = {"version": None, "error_correction": 0, "mask_pattern": None,
                "border": 4, "box_size": 10}
        full.update(kw)
        if frac_border:
            full["border"] = 0       # decided separately below
        expected = set()
        for attr in ("version", "mask_pattern", "border", "box_size"):
            ok, ex = in_range(attr, full[attr])
            cls = "valid" if ok else "invalid"
            if attr in kw:
                self.stats.inc(f"c18.ctor.{attr}.{cls}")
                self.stats.add("c18.tuples", (attr, repr(full[attr]), "ctor"))
            if not ok:
                expected.update(ex)
        exc = None
        try:
            qr = qrcode.QRCode(**kw)
        except Exception as e:  # noqa
            exc = e
        self.log.ev("new", op["obj"], sorted(kw.items(), key=str), type(exc).__name__)
        fp = "ctor|" + ",".join(f"{a}={full[a]!r}" for a in sorted(kw)
                                if a != "error_correction" and
                                not in_range(a, full[a])[0]) if expected else "ctor|valid"
        if frac_border and not expected:
            eff = self._fractional_border(None if exc is not None else qr, kw["border"], exc,
                                          "ctor")
            if eff is None:
                return
            full["border"] = eff
        if expected:
            self.nontrivial["C18"] = True
            if exc is None:
                self.viol("C18", "C18/out-of-range-accepted-at-construction",
                          f"QRCode({kw}) constructed an object", fp)
            if frac_border:
                expected = expected | {"ValueError", "TypeError"}
            if type(exc).__name__ not in expected:
                self.viol("C18", "C18/wrong-exception-at-construction",
                          f"QRCode({kw}) raised {exc!r}, expected {sorted(expected)}", fp)
            return
        if numeric_string(full["version"]):
            if exc is not None:
                if type(exc).__name__ not in ("ValueError", "TypeError"):
                    self.viol("C18", "C18/wrong-exception-at-construction",
                              f"QRCode({kw}) raised {exc!r}", fp)
                return
            full["version"] = int(full["version"])
        if exc is not None:
            self.viol("C18", "C18/in-range-rejected-at-construction",
                      f"QRCode({kw}) raised {exc!r}", fp)
        m = Model((full["version"], full["error_correction"], full["mask_pattern"],
                   full["border"], full["box_size"]))
        self.objs[op["obj"]] = (qr, m)

    def op_add(self, qr, m, op):
        from qrcode.util import QRData
        p = dec_payload(op["p"])
        if op["op"] == "add":
            seg = ("d", p, op["opt"])
        else:
            seg = ("q", p, op["mode"])
        exc, _, _ = do_op(qr, ("add_seg", seg))
        if exc is not None:
            # compare with a fresh object doing the same call
            r = self.ref(m.spec(("add_seg", seg)))
            if r["exc"] != exc:
                self.viol("C11", "C11/add_data-error-differs-from-fresh",
                          f"add_data({p!r}): aged {exc!r}, fresh {r['exc']!r}",
                          self.fp(m, "add"))
            self.log.ev("add-failed", op["obj"], exc)
            return
        m.segs.append(seg)
        m.need = "yes"
        m.changed_since_compile = True
        self.log.ev("add", op["obj"], core.short_hash(repr(seg)))

    def op_clear(self, qr, m, op):
        qr.clear()
        m.segs = []
        m.need = "yes"
        m.cur = pack(qr.modules)
        m.sym_version = None
        m.scribbled = False
        m.changed_since_compile = True
        self.stats.inc("probe.clear")
        self.log.ev("clear", op["obj"])

    def _maybe_compiled_to_same(self, m):
        """A call that may or may not have compiled (aborted by our fault, or
        refused) left the symbol unchanged while a compile was due.  If a fresh
        compile gives exactly the symbol the object already held (e.g. after
        add_data(b"")), "unchanged" does not prove that no compile happened: the
        model can then no longer insist that the next renderer compiles."""
        if m.need != "yes" or m.cur == EMPTY:
            return
        r = self.ref(m.spec(("make", True)))
        if r["exc"] is None and r["mods"] == m.cur:
            m.need = "unsure"
            self.stats.inc("probe.identical_recompile_ambiguity")

    def _compare_compile(self, qr, m, r, exc, opkind, lazy_prop=None):
        """Common part of every operation that is promised to compile."""
        aged = pack(qr.modules)
        fp = self.fp(m, opkind)
        if exc != r["exc"]:
            # a fault we injected ourselves is handled by the caller before this
            if lazy_prop in ("C15", "C16"):
                # the renderer's own promise ("compiling the symbol first if needed") is
                # broken too when its implicit compile fails where a fresh object's does
                # not (or the other way round)
                self.viol(lazy_prop, f"{lazy_prop}/lazy-compile-outcome-differs",
                          f"{opkind}: aged object {exc!r}, fresh object {r['exc']!r}", fp,
                          soft=True)
            self.viol("C11", "C11/error-differs-from-fresh",
                      f"{opkind}: aged object {exc!r}, fresh object {r['exc']!r}", fp)
        if exc is None and aged != r["mods"]:
            if lazy_prop and aged == m.cur:
                self.viol(lazy_prop, f"{lazy_prop}/no-compile-when-needed",
                          f"{opkind}: symbol was not compiled although data changed "
                          f"since the last compile", fp)
            nd = sum(a != b for ra, rb in zip(aged, r["mods"]) for a, b in zip(ra, rb)) \
                if len(aged) == len(r["mods"]) else -1
            self.viol("C11", "C11/modules-differ-after-compile",
                      f"{opkind}: symbol differs from a fresh object's "
                      f"(sides {len(aged)} vs {len(r['mods'])}, {nd} modules differ)", fp)
        return aged

    def _after_compile(self, m, r, exc, aged, fit):
        had = m.compiled is not None
        if exc is None:
            if m.last_failed:
                self.stats.inc("probe.compile_after_failed_compile")
            if had and m.changed_since_compile:
                self.nontrivial["C11"] = True
            if m.scribbled:
                self.stats.inc("probe.compile_after_caller_mutation")
            m.compiled = (m.ctor(), tuple(m.segs), fit)
            m.version = r["version_after"]
            m.sym_version = r["version_after"]
            m.compiled_version = r["version_after"]
            m.cur = aged
            m.need = "no"
            m.scribbled = False
            m.last_failed = False
            m.changed_since_compile = False
            self.note_compile(m, m.version)
        else:
            m.version = r["version_after"]
            m.cur = aged
            m.need = "yes" if m.need == "yes" else "unsure"
            m.last_failed = True
            self.stats.inc("fault.failed_compile." + exc[0])

    def op_make(self, qr, m, op):
        fit = op["fit"]
        a = m.abstract(m.version in self.touched)
        if a[0]:
            if a[2] in ("lower", "higher"):
                self.stats.inc("probe.compile_after_version_" +
                               ("lowered" if a[2] == "lower" else "raised"))
            if a[3] == "changed":
                self.stats.inc("probe.compile_after_level_change")
        r = self.ref(m.spec(("make", fit)))
        exc, _, _ = do_op(qr, ("make", fit))
        self.stats.add("c11.states", (a, "make", "fit" if fit else "nofit",
                                      "ok" if exc is None else exc[0]))
        aged = self._compare_compile(qr, m, r, exc, "make(fit=%s)" % fit)
        if exc is None:
            try:
                v = qr.version
            except Exception as e:  # noqa
                v = repr(e)
            if v != r["version_after"]:
                self.viol("C11", "C11/version-differs-after-compile",
                          f"version reads {v!r}, fresh object {r['version_after']!r}",
                          self.fp(m, "make"))
            if r["version_after"] in (9, 10, 26, 27) and (m.version or 0) != r["version_after"]:
                self.stats.inc("probe.fit_crosses_class_boundary")
        self._after_compile(m, r, exc, aged, fit)
        self.log.ev("make", op["obj"], fit, exc, core.short_hash(repr(aged)), m.version)

    def op_set(self, qr, m, op):
        attr, value = op["attr"], dec_value(op["value"])
        if attr == "error_correction":
            qr.error_correction = value
            if value != m.level:
                m.changed_since_compile = True
            m.level = value
            self.log.ev("set", op["obj"], attr, value)
            return
        if attr == "border" and isinstance(value, float):
            exc = None
            try:
                qr.border = value
            except Exception as e:  # noqa
                exc = e
            self.log.ev("set", op["obj"], attr, repr(value), type(exc).__name__)
            eff = self._fractional_border(qr, value, exc, "assign")
            if eff is None:
                try:
                    now = qr.border
                except Exception as e:  # noqa
                    now = repr(e)
                if now != m.border:
                    self.viol("C18", "C18/rejected-value-took-effect",
                              f"after rejected border = {value!r} the setting reads {now!r}, "
                              f"was {m.border!r}", f"assign|border={value!r}", cont=True)
            else:
                if eff != m.border:
                    m.changed_since_compile = True
                m.border = eff
            return
        ok, expected = in_range(attr, value)
        self.stats.inc(f"c18.assign.{attr}.{'valid' if ok else 'invalid'}")
        self.stats.add("c18.tuples", (attr, repr(value), "assign"))
        exc = None
        try:
            setattr(qr, attr, value)
        except Exception as e:  # noqa
            exc = e
        fp = f"assign|{attr}={value!r}"
        self.log.ev("set", op["obj"], attr, repr(value), type(exc).__name__)
        field = {"version": "version", "mask_pattern": "mask", "border": "border",
                 "box_size": "box"}[attr]
        if ok and numeric_string(value):
            # in-range number spelled as a string: accepting it (as that number) and
            # rejecting it are both fine
            if exc is not None:
                if type(exc).__name__ not in ("ValueError", "TypeError"):
                    self.viol("C18", "C18/wrong-exception-at-assignment",
                              f"{attr} = {value!r} raised {exc!r}", fp)
                return
            value = int(value)
        if ok:
            if exc is not None:
                self.viol("C18", "C18/in-range-rejected-at-assignment",
                          f"{attr} = {value!r} raised {exc!r}", fp)
            if getattr(m, field) != value:
                m.changed_since_compile = True
            setattr(m, field, value)
            self.stats.inc("c18.accepted")
            return
        self.nontrivial["C18"] = True
        if exc is None:
            if attr == "box_size":
                # may be caught as late as make_image(): remember it is pending
                m.box = value
                self.stats.inc("c18.box_size_deferred")
                return
            self.viol("C18", "C18/out-of-range-accepted-at-assignment",
                      f"{attr} = {value!r} was accepted without an exception", fp)
        if type(exc).__name__ not in expected:
            self.viol("C18", "C18/wrong-exception-at-assignment",
                      f"{attr} = {value!r} raised {exc!r}, expected {expected}", fp)
        self.stats.inc("c18.rejected")
        # the rejected value must not have taken effect
        if attr in ("mask_pattern", "border", "box_size") or m.version is not None:
            try:
                now = getattr(qr, attr)
            except Exception as e:  # noqa
                now = repr(e)
            if now != getattr(m, field):
                self.viol("C18", "C18/rejected-value-took-effect",
                          f"after rejected {attr} = {value!r} the setting reads {now!r}, "
                          f"was {getattr(m, field)!r}", fp, cont=True)

    def op_read_version(self, qr, m, op):
        r = self.ref(m.spec(("read_version",)))
        exc, ret, _ = do_op(qr, ("read_version",))
        if (exc, ret) != (r["exc"], r["ret"]):
            self.viol("C11", "C11/version-read-differs-from-fresh",
                      f"version read: aged {(exc, ret)!r}, fresh {(r['exc'], r['ret'])!r}",
                      self.fp(m, "read_version"))
        if r["version_after"] != m.version:
            m.changed_since_compile = True
        m.version = r["version_after"]
        self.log.ev("read_version", op["obj"], exc, ret)

    def op_best_fit(self, qr, m, op):
        o = ("best_fit", op["start"])
        r = self.ref(m.spec(o))
        exc, ret, _ = do_op(qr, o)
        if (exc, ret) != (r["exc"], r["ret"]):
            self.viol("C11", "C11/best_fit-differs-from-fresh",
                      f"best_fit({op['start']}): aged {(exc, ret)!r}, "
                      f"fresh {(r['exc'], r['ret'])!r}", self.fp(m, "best_fit"))
        if r["version_after"] != m.version:
            m.changed_since_compile = True
        m.version = r["version_after"]
        self.log.ev("best_fit", op["obj"], op["start"], exc, ret)

    def op_best_mask_pattern(self, qr, m, op):
        """Perturbation only.  best_mask_pattern() is callable but is neither a
        compile nor a renderer in the property's sense: it runs the eight trial
        builds and leaves the last trial matrix (and a 'compiled' flag) behind.
        Nothing is demanded of its return value or of what renderers show
        afterwards; the next *compile* must again equal a fresh object's."""
        o = ("best_mask_pattern",)
        r = self.ref(m.spec(o))
        exc, ret, _ = do_op(qr, o)
        if r["version_after"] != m.version:
            m.changed_since_compile = True
        m.version = r["version_after"]
        m.cur = pack(qr.modules)
        m.sym_version = None
        m.scribbled = True
        m.need = "unsure"
        m.changed_since_compile = True
        self.stats.inc("probe.best_mask_pattern_called")
        self.log.ev("best_mask_pattern", op["obj"], exc, ret)

    # ---- lazily compiling renderers -----------------------------------------
    def _render(self, qr, m, opkind, refop, call, prop, injected=None):
        """Run a renderer on the aged object.  `call()` performs it and returns
        (exc_sig|None, ret, out).  Returns (exc, ret, out, state) where state is
        'compiled-now' | 'clean' | 'unsure' | 'aborted'."""
        need = m.need
        fp = self.fp(m, opkind)
        box_bad = not in_range("box_size", m.box)[0]
        exc, ret, out = call()
        aged = pack(qr.modules)
        self.stats.inc(f"render.{opkind}.need_{need}")

        if refop[0] == "image" and box_bad:
            self.nontrivial["C18"] = True
            self.stats.inc("c18.make_image_under_bad_box_size")
            if exc is None or exc[0] != "ValueError":
                self.viol("C18", "C18/image-produced-under-out-of-range-box-size",
                          f"make_image with box_size={m.box!r}: {exc!r}",
                          f"make_image|box_size={m.box!r}")
            # a refused make_image may or may not have compiled first
            if aged != m.cur:
                r = self.ref(m.spec(("make", True)))
                if aged != r["mods"]:
                    self.viol("C11", "C11/modules-changed-by-render",
                              f"{opkind}: symbol changed to neither old nor fresh", fp)
                self._after_compile(m, r, None, aged, True)
            else:
                self._maybe_compiled_to_same(m)
            return exc, ret, out, "aborted"

        if injected is not None and exc is not None and exc == injected:
            # our own fault aborted the call: nothing is demanded of the output,
            # but the object must be either untouched or correctly compiled
            if aged != m.cur:
                r = self.ref(m.spec(("make", True)))
                if aged != r["mods"]:
                    self.viol("C11", "C11/modules-changed-by-render",
                              f"{opkind} aborted by injected fault left a symbol that is "
                              f"neither the old one nor a fresh compile", fp)
                self._after_compile(m, r, None, aged, True)
            else:
                self._maybe_compiled_to_same(m)
            return exc, ret, out, "aborted"

        if need == "yes":
            r = self.ref(m.spec(refop))
            if prop in ("C15", "C16"):
                # "compiling the symbol first if needed" means what make() does: the call
                # must behave like an explicit make() followed by the same call (on a fresh
                # object) - an absolute check that does not go blind when fresh objects
                # share a defect of the implicit compile
                rx = self.ref(m.spec(("make_then", refop)))

                def same(e, rt, ot):
                    # equal outcome: the same failure, or success with the same result
                    # (what a failed call left on the stream is not compared)
                    return e == rx["exc"] and (e is not None or
                                               (rt, ot) == (rx["ret"], rx["out"]))
                if injected is None and not same(exc, ret, out) \
                        and not same(r["exc"], r["ret"], r["out"]):
                    self.viol(prop, f"{prop}/implicit-compile-differs-from-explicit-make",
                              f"{opkind} with a compile due gives ({exc!r}, "
                              f"{core.short_hash(repr((ret, out)))}); make() followed by the "
                              f"same call on a fresh object gives ({rx['exc']!r}, "
                              f"{core.short_hash(repr((rx['ret'], rx['out'])))})", fp, soft=True)
            self._compare_compile(qr, m, r, exc, opkind, lazy_prop=prop)
            if exc is None:
                if m.last_failed:
                    pass
                self.stats.inc("probe.lazy_compile." + opkind)
                if m.compiled is not None:
                    self.stats.inc("probe.lazy_recompile_after_data_change")
                self._after_compile(m, r, None, aged, True)
                if injected is None:
                    def pending(r=r):
                        if (ret, out) != (r["ret"], r["out"]):
                            self.viol("C11", "C11/render-differs-from-fresh",
                                      f"{opkind}: output differs from a fresh object's", fp)
                    self._pending = pending
                return exc, ret, out, "compiled-now"
            if aged == r["mods"] and aged != EMPTY and not has_none(aged):
                # the implicit compile went through (the object holds exactly the symbol the
                # fresh object holds after the same failing call); it is the *rendering* that
                # raised afterwards - e.g. Pillow refusing a degenerate shape at box size 1
                self._after_compile(m, r, None, aged, True)
                self.stats.inc("probe.render_failed_after_successful_lazy_compile")
            else:
                self._after_compile(m, r, exc, aged, True)
            return exc, ret, out, "aborted"

        # need in (no, unsure): a compile is not promised
        if aged != m.cur:
            r = self.ref(m.spec(("make", True)))
            if aged != r["mods"]:
                # the renderer damaged the symbol.  Record it, bring the model back in
                # step with what the object now holds and go on: the structural checks
                # of later calls (C15/C16) are about exactly this object state.
                self.viol("C11", "C11/modules-changed-by-render",
                          f"{opkind}: symbol changed although no compile was due, and it "
                          f"is not what a fresh compile gives", fp, soft=True)
                self.resynced = True
                m.cur = aged
                m.scribbled = True
                return exc, ret, out, "clean" if exc is None else "aborted"
            self._after_compile(m, r, None, aged, True)
            return exc, ret, out, "compiled-now" if exc is None else "aborted"
        if need == "unsure" or has_none(aged) or m.compiled is None:
            return exc, ret, out, "unsure"
        if not m.scribbled and injected is None:
            spec1, spec2 = m.spec_rendered(refop), m.spec(refop)

            def pending():
                r = self.ref(spec1)
                if (exc, ret, out) != (r["exc"], r["ret"], r["out"]):
                    r2 = self.ref(spec2)       # maybe it recompiled to the same symbol
                    if (exc, ret, out) != (r2["exc"], r2["ret"], r2["out"]):
                        self.viol("C11", "C11/render-differs-from-fresh",
                                  f"{opkind} on a compiled object: ({exc!r}, "
                                  f"{core.short_hash(repr((ret, out)))}) differs from a "
                                  f"fresh object's ({r['exc']!r}, "
                                  f"{core.short_hash(repr((r['ret'], r['out'])))})", fp)
            self._pending = pending
        elif exc is not None and injected is None:
            # the caller scribbled on the symbol, so outputs are not comparable - but a
            # renderer that fails where it works for a fresh object is still wrong (some
            # renderings fail legitimately, e.g. Pillow on a degenerate shape at box size 1:
            # then the fresh object fails in the same way)
            r = self.ref(m.spec_rendered(refop))
            if r["exc"] is None:
                self.viol("C11", "C11/render-raised",
                          f"{opkind} raised {exc!r} on a compiled object; the same call works "
                          f"on a fresh object", fp)
        return exc, ret, out, "clean"

    def op_get_matrix(self, qr, m, op):
        scribble = op.get("scribble")
        holder = {}

        def call():
            try:
                holder["mat"] = qr.get_matrix()
                return None, pack(holder["mat"]), None
            except Exception as e:  # noqa
                return exc_sig(e), None, None

        need0 = m.need
        exc, _, _, state = self._render(qr, m, "get_matrix", ("get_matrix",), call, "C16")
        self.log.ev("get_matrix", op["obj"], "border=%r" % m.border, exc, state)
        if exc is not None or state == "unsure":
            return
        mat = holder["mat"]
        aged = m.cur
        b = m.border
        fp = f"get_matrix|border={'0' if b == 0 else '>0'}|need={need0}"
        n = len(aged)
        self.nontrivial["C16"] = True
        self.stats.inc("c16.evaluations")
        self.stats.inc(f"c16.border_{'0' if b == 0 else '1-3' if b < 4 else '4+'}"
                       f".{'lazy' if state == 'compiled-now' else 'clean'}")
        self.stats.add("c16.pairs", (m.sym_version, b))
        side = n + 2 * b
        if m.sym_version is not None and n != 17 + 4 * m.sym_version:
            self.viol("C16", "C16/symbol-side-not-17+4v",
                      f"symbol side {n} for version {m.sym_version}", fp, soft=True)
        if not isinstance(mat, list) or len(mat) != side or \
                any(not isinstance(row, list) or len(row) != side for row in mat):
            self.viol("C16", "C16/wrong-size",
                      f"get_matrix returned {len(mat)} rows "
                      f"(row lengths {sorted({len(r) for r in mat})}), expected square of "
                      f"{side} = {n} + 2*{b}", fp, soft=True)
            return
        mods = unpack(aged)
        for r_ in range(side):
            row = mat[r_]
            for c_ in range(side):
                inner = b <= r_ < b + n and b <= c_ < b + n
                cell = row[c_]
                if inner:
                    if cell is not mods[r_ - b][c_ - b] and cell != mods[r_ - b][c_ - b]:
                        self.viol("C16", "C16/centre-differs-from-symbol",
                                  f"cell ({r_},{c_}) is {cell!r}, symbol module "
                                  f"({r_ - b},{c_ - b}) is {mods[r_ - b][c_ - b]!r}", fp, soft=True)
                elif cell is not False and cell != 0 or cell is None:
                    self.viol("C16", "C16/frame-not-light",
                              f"frame cell ({r_},{c_}) is {cell!r}", fp, soft=True)
        if scribble:
            # legal caller misuse: write into the returned matrix
            for (rr, cc) in scribble:
                row = mat[rr % side]
                row[cc % side] = not row[cc % side]
            self.stats.inc("fault.caller_scribble")
            m.cur = pack(qr.modules)      # aliasing (border 0) is allowed either way
            if m.cur != aged:
                m.scribbled = True
                self.stats.inc("probe.scribble_reached_symbol")
            self.log.ev("scribble", len(scribble), core.short_hash(repr(m.cur)))

    def _print(self, qr, m, op, variant):
        st = op.get("stream", {})
        sid = st.get("id")
        if sid is not None and sid in self.streams:
            # the very same stream object as an earlier call, possibly with another
            # answer to isatty() or another health
            stream = self.streams[sid]
            if stream.tty != st.get("tty", True):
                self.stats.inc("fault.isatty_answer_changed_on_same_stream")
            stream.reset(tty=st.get("tty", True), fail_write_at=st.get("fail_write_at"),
                         fail_flush=st.get("fail_flush", False),
                         err=st.get("errno", errno.EPIPE))
            self.stats.inc("probe.stream_object_reused")
        else:
            stream = SimStream(tty=st.get("tty", True),
                               fail_write_at=st.get("fail_write_at"),
                               fail_flush=st.get("fail_flush", False),
                               err=st.get("errno", errno.EPIPE))
            if sid is not None:
                self.streams[sid] = stream
        use_stdout = st.get("as_stdout", False)
        is_ascii = op["op"] == "print_ascii"
        tty_variant = (not is_ascii) or op.get("tty", False)
        invert = op.get("invert", False)

        def call():
            saved = sys.stdout
            try:
                if use_stdout:
                    sys.stdout = stream
                out = None if use_stdout else stream
                if is_ascii:
                    qr.print_ascii(out=out, tty=op.get("tty", False), invert=invert)
                else:
                    qr.print_tty(out=out)
                return None, None, stream.text()
            except Exception as e:  # noqa
                return exc_sig(e), None, stream.text()
            finally:
                sys.stdout = saved

        opkind = "print_ascii" if is_ascii else "print_tty"
        refop = (("print_ascii", op.get("tty", False), invert, stream.tty) if is_ascii
                 else ("print_tty", stream.tty))
        injected = None
        if tty_variant and not stream.tty:
            injected = None          # refusal is the library's own, handled below
        elif stream.fail_write_at is not None or stream.fail_flush:
            injected = injected_sig(stream.err)
        fpv = f"{opkind}|{variant}|border={'0' if m.border == 0 else '>0'}"

        if tty_variant and not stream.tty:
            # refusal must come before anything is written
            self.stats.inc("fault.not_a_tty")
            need0, cur0 = m.need, m.cur
            exc, _, out = call()
            self.nontrivial["C15"] = True
            self.log.ev(opkind, op["obj"], variant, "non-tty", exc)
            if exc is None or exc[0] != "OSError":
                self.viol("C15", "C15/non-tty-not-refused",
                          f"{opkind} {variant} on a non-tty stream: {exc!r}", fpv)
            if stream.writes or any(c.startswith(("write", "flush")) for c in stream.calls):
                self.viol("C15", "C15/wrote-before-refusing-non-tty",
                          f"{opkind} {variant}: calls before refusal {stream.calls[:6]}", fpv)
            if need0 != "yes" or m.compiled is not None:
                self.stats.inc("probe.non_tty_refusal_on_compiled_object")
            aged = pack(qr.modules)
            if aged != cur0:          # it may legally have compiled before refusing
                r = self.ref(m.spec(("make", True)))
                if aged != r["mods"]:
                    self.viol("C11", "C11/modules-changed-by-render",
                              f"{opkind} refusal changed the symbol", self.fp(m, opkind))
                self._after_compile(m, r, None, aged, True)
            else:
                self._maybe_compiled_to_same(m)
            return

        exc, _, out, state = self._render(qr, m, opkind, refop, call, "C15",
                                          injected=injected)
        for f in stream.faults_fired:
            self.stats.inc("fault.stream_" + f + "_error")
        self.log.ev(opkind, op["obj"], variant, "border=%r" % m.border, exc, state,
                    core.short_hash(out or ""))
        if state == "aborted":
            if stream.faults_fired:
                self.stats.inc("probe.render_aborted_by_stream_fault")
                m.after_fault = True
            return
        if injected is not None and not stream.faults_fired and exc is None:
            pass        # fault position beyond what the call wrote: plain success
        if exc is not None or state == "unsure":
            return
        # ---- structural read-back (C15) ----
        self.nontrivial["C15"] = True
        mods = unpack(m.cur)
        n = len(mods)
        self.stats.inc(f"c15.{opkind}.{variant}.border_{'even' if m.border % 2 == 0 else 'odd'}"
                       f".{'lazy' if state == 'compiled-now' else 'clean'}")
        self.stats.add("c15.tuples", (opkind, variant, m.border, m.sym_version, state))
        if getattr(m, "after_fault", False):
            self.stats.inc("probe.healthy_print_after_aborted_print")
            m.after_fault = False
        try:
            if is_ascii:
                side = n + 2 * m.border
                got = readback.matrix_from_half_blocks(out, variant, side)
                want = readback.frame(mods, m.border)
            else:
                side = n + 2
                got = readback.matrix_from_tty_colours(out, side)
                want = readback.frame(mods, 1)
        except readback.Unreadable as e:
            self.viol("C15", "C15/output-unreadable", f"{opkind} {variant}: {e}", fpv,
                      soft=True)
            return
        if got != want:
            bad = [(r_, c_) for r_ in range(len(want)) for c_ in range(len(want))
                   if got[r_][c_] != want[r_][c_]]
            self.viol("C15", "C15/readback-differs-from-symbol",
                      f"{opkind} {variant} border={m.border}: {len(bad)} cells differ, "
                      f"first {bad[:4]}", fpv, soft=True)
        if "flush" not in stream.calls[-1:]:
            self.stats.inc("probe.no_final_flush")

    def op_print_ascii(self, qr, m, op):
        variant = "tty" if op.get("tty") else "invert" if op.get("invert") else "plain"
        self._print(qr, m, op, variant)

    def op_print_tty(self, qr, m, op):
        self._print(qr, m, op, "colour")

    def op_image(self, qr, m, op):
        fname = op["factory"]
        kwargs = tuple(sorted(op.get("kwargs", {}).items()))
        fail_at = op.get("fail_write_at")
        sink = SimByteSink(fail_write_at=fail_at)
        injected = None
        if fail_at is not None:
            injected = injected_sig(sink.err)

        def call():
            try:
                img = qr.make_image(factory_class(fname),
                                    **resolve_image_kwargs(fname, kwargs))
                img.save(sink)
                return None, None, sink.getvalue()
            except Exception as e:  # noqa
                return exc_sig(e), None, None

        exc, _, out, state = self._render(qr, m, "make_image", ("image", fname, kwargs),
                                          call, "C11", injected=injected)
        if sink.faults_fired:
            self.stats.inc("fault.sink_write_error")
            self.stats.inc("probe.stream_fault_then_render")
        self.stats.inc(f"image.{fname}.{state}")
        self.log.ev("image", op["obj"], fname, "box=%r" % m.box, exc, state,
                    core.short_hash(out or b""))

    def op_other(self, op):
        """Another, anonymous object of the same process compiles version v."""
        import qrcode
        q = qrcode.QRCode(version=op["version"], mask_pattern=op.get("mask", 2),
                          error_correction=op.get("level", 0))
        q.add_data(dec_payload(op["p"]))
        try:
            q.make(fit=False)
            self.touched.add(op["version"])
        except Exception as e:  # noqa
            pass
        self.stats.inc("probe.other_object_compiled")
        self.log.ev("other", op["version"])

    def canary(self):
        import qrcode
        for v in sorted(self.touched):
            ctor = (v, 0, v % 8, 4, 10)
            segs = (("d", "CANARY-%d" % v, 20),)
            r = self.ref(("obj", ctor, segs, None, ("make", False)))
            qr = build_object(ctor, segs)
            exc, _, _ = do_op(qr, ("make", False))
            aged = pack(qr.modules)
            self.stats.inc("canary.compiles")
            self.log.ev("canary", v, exc, core.short_hash(repr(aged)))
            if exc != r["exc"] or aged != r["mods"]:
                self.viol("C11", "C11/canary-differs-in-aged-process",
                          f"a brand-new object compiling version {v} in the aged process "
                          f"differs from a pristine process ({exc!r} vs {r['exc']!r})",
                          "canary")

    # -- main loop -----------------------------------------------------------
    def execute(self):
        try:
            self.prologue()
            for op in self.case["ops"]:
                self.steps += 1
                kind = op["op"]
                self.stats.inc("op." + kind)
                self.shape.append(kind)
                if kind == "new":
                    self.op_new(op)
                    continue
                if kind == "other":
                    self.op_other(op)
                    continue
                ent = self.objs.get(op["obj"])
                if ent is None:
                    self.stats.inc("op.skipped_no_object")
                    continue
                qr, m = ent
                self._pending = None
                getattr(self, "op_" + ("add" if kind in ("add", "addq") else
                                      "get_matrix" if kind in ("get_matrix", "scribble")
                                      else kind))(qr, m, op)
                if self._pending is not None:
                    pend, self._pending = self._pending, None
                    pend()
                if self.violations and not self.resynced:
                    raise _Stop()
                if self.resynced:
                    self.resynced = False
                    self.resync_count = getattr(self, "resync_count", 0) + 1
                    if self.resync_count >= 3 or len(self.violations) >= 4:
                        raise _Stop()
            if self.case.get("canary", True):
                self.canary()
        except _Stop:
            pass
        return self


def run_case(case, ref):
    run = Run(case, ref).execute()
    return {"violations": [v.to_json() for v in run.violations], "stats": run.stats,
            "log": run.log.lines, "steps": run.steps, "nontrivial": run.nontrivial}


# --------------------------------------------------------------------------
# generation
# --------------------------------------------------------------------------

PAYLOADS = [
    b"", "a", "A", "0", "HELLO WORLD", "testtext", "0123456789", "1" * 34, "1" * 35,
    "1" * 41, "1" * 42, "A" * 20, "A" * 21, "A" * 25, "A" * 26, b"x" * 14, b"x" * 15,
    b"x" * 17, b"x" * 18, "αβγ", "http://www.lincolnloop.com",
    b"\x00\x01\xff", b"\x00" * 8, b"\x00" * 24, "ABC123abc", "12345678901234567890ABCDEFGHIJ",
    12345, "x" * 60, "9" * 200, "z" * 100, "Z" * 130, b"\xe4\xb8\xad\xe6\x96\x87",
    "line1\nline2", "$%*+-./: 09AZ", "y" * 190, "w" * 220,
]
PAYLOADS += ["ticket-001", "ticket-002", "ticket-003", "ticket-004", "TICKET 01", "TICKET 02",
             "TICKET 03", "1000001", "1000002", "1000003", b"\x01\x02\x03", b"\x03\x02\x01"]
BIG_PAYLOADS = ["q" * 600, "7" * 3000, "Q" * 1500, b"\x80" * 1300, "p" * 2900, "5" * 7089,
                "5" * 7090, "p" * 2953, "p" * 2954]
QDATA = [("a", MODE_BYTE), ("123", MODE_NUMBER), ("123", MODE_ALNUM), ("123", MODE_BYTE),
         ("HELLO", MODE_ALNUM), ("HELLO", MODE_BYTE), (b"\x00\xff", MODE_BYTE),
         ("0" * 30, MODE_NUMBER), ("A1" * 8, MODE_ALNUM)]

OP_KINDS = ["best_mask_pattern", "add", "addq", "clear", "make_fit", "make_nofit", "set_version", "set_level",
            "set_mask", "set_border", "set_box", "read_version", "best_fit", "get_matrix",
            "scribble", "image", "print_ascii", "print_tty", "other", "set_invalid", "new"]
# the 14-operation alphabet of the stratified skeleton (thorough tier / low indices)
SKELETON = ["add", "clear", "make_fit", "make_nofit", "set_version", "set_level", "set_mask",
            "set_border", "read_version", "get_matrix", "scribble", "image", "print_ascii",
            "print_tty"]

INVALID = {
    "version": [-1, 0, 41, 42, 255, -40, 2 ** 31, 10 ** 20, -10 ** 20, {"str": "41"},
                {"str": "0"}, {"str": "-1"}],
    "mask_pattern": [-1, 8, 9, 255, {"str": "3"}, {"float": 2.0}, {"list": [1]}, 2 ** 31,
                     -10 ** 20, {"float": 7.0}],
    "border": [-1, -3, -4, -1, {"float": -0.5}, {"float": -0.25}, {"float": -1.5},
               {"float": 2.7}, -10 ** 20, -2 ** 31, {"str": "-1"}],
    "box_size": [0, -1, -10, -2 ** 31, {"str": "0"}, {"str": "-3"}],
}
VALID_EDGE = {
    "version": [1, 40, None, 2, 7, {"str": "5"}, {"str": "40"}],
    "mask_pattern": [0, 7, None, 3],
    "border": [0, 1, 9, 4],
    "box_size": [1, 2, 3, 10],
}


def _weights(focus):
    w = {k: 1.0 for k in OP_KINDS}
    w.update({"add": 2.5, "make_fit": 3, "make_nofit": 2, "set_version": 2.5, "set_level": 1.5,
              "set_mask": 1.2, "get_matrix": 1.5, "image": 1.0, "print_ascii": 1.0,
              "print_tty": 0.6, "other": 0.6, "set_invalid": 0.5, "new": 0.4, "addq": 0.5,
              "clear": 0.8, "best_fit": 0.6, "read_version": 0.8, "scribble": 0.8,
              "set_border": 0.8, "set_box": 0.5, "best_mask_pattern": 0.25})
    if focus == "C15":
        w.update({"print_ascii": 5, "print_tty": 3, "set_border": 2.5, "image": 0.3})
    elif focus == "C16":
        w.update({"get_matrix": 5, "scribble": 2.5, "set_border": 3, "image": 0.3,
                  "print_ascii": 0.4, "print_tty": 0.2})
    elif focus == "C18":
        w.update({"set_invalid": 5, "new": 3, "set_box": 2, "set_border": 2, "set_mask": 2,
                  "image": 2.5, "get_matrix": 1.5, "make_nofit": 1})
    return w


BORDERS = [0, 0, 0, 1, 1, 2, 3, 4, 4, 5, 6, 7, 8, 9, 10, 11, 12, 17]


def _gen_version(rng, tier, small=True):
    r = rng.random()
    if r < (0.06 if tier == "thorough" else 0.02):
        # rare large symbols (a forced-mask compile of version 40 costs ~0.1 s, an
        # automatic one ~2 s)
        return rng.choice([9, 10, 11, 26, 27, 40, 39, 13, 20, 14, 21, 32, 35])
    if r < 0.75:
        return rng.randint(1, 5)
    if r < 0.95:
        return rng.randint(6, 8)
    return rng.choice([9, 10])


def _gen_stream(rng, tty_variant, focus):
    st = {}
    r = rng.random()
    if tty_variant and r < 0.22:
        st["tty"] = False
    elif r < (0.45 if focus == "C15" else 0.3):
        if rng.random() < 0.8:
            st["fail_write_at"] = rng.choice([0, 1, 2, 3, 5, 8, 13, 40, 200])
        else:
            st["fail_flush"] = True
        st["errno"] = rng.choice([errno.EPIPE, errno.ENOSPC, errno.EIO])
    if rng.random() < 0.12:
        st["as_stdout"] = True
    if rng.random() < 0.35:
        st["id"] = rng.choice([0, 0, 1])     # a terminal object that later calls see again
    return st


def gen_op(rng, kind, obj, pool, tier, focus):
    if kind == "add":
        return {"op": "add", "obj": obj, "p": enc_payload(rng.choice(pool)),
                "opt": rng.choice([20, 20, 20, 0, 1, 4])}
    if kind == "addq":
        p, mode = rng.choice(QDATA)
        return {"op": "addq", "obj": obj, "p": enc_payload(p), "mode": mode}
    if kind == "clear":
        return {"op": "clear", "obj": obj}
    if kind == "make_fit":
        return {"op": "make", "obj": obj, "fit": True}
    if kind == "make_nofit":
        return {"op": "make", "obj": obj, "fit": False}
    if kind == "set_version":
        v = None if rng.random() < 0.12 else _gen_version(rng, tier)
        return {"op": "set", "obj": obj, "attr": "version", "value": v}
    if kind == "set_level":
        return {"op": "set", "obj": obj, "attr": "error_correction",
                "value": rng.choice(list(LEVELS.values()))}
    if kind == "set_mask":
        return {"op": "set", "obj": obj, "attr": "mask_pattern",
                "value": rng.choice([None, 0, 1, 2, 3, 4, 5, 6, 7])}
    if kind == "set_border":
        return {"op": "set", "obj": obj, "attr": "border",
                "value": rng.choice(BORDERS)}
    if kind == "set_box":
        return {"op": "set", "obj": obj, "attr": "box_size", "value": rng.choice([1, 2, 3, 6, 10])}
    if kind == "set_invalid":
        attr = rng.choice(["version", "mask_pattern", "border", "box_size"])
        if rng.random() < 0.3:      # in-range edge values through the same channel
            return {"op": "set", "obj": obj, "attr": attr, "value": rng.choice(VALID_EDGE[attr])}
        return {"op": "set", "obj": obj, "attr": attr, "value": rng.choice(INVALID[attr])}
    if kind == "read_version":
        return {"op": "read_version", "obj": obj}
    if kind == "best_fit":
        return {"op": "best_fit", "obj": obj,
                "start": rng.choice([None, None, 1, 2, 5, 9, 10, _gen_version(rng, tier)])}
    if kind == "best_mask_pattern":
        return {"op": "best_mask_pattern", "obj": obj}
    if kind == "get_matrix":
        return {"op": "get_matrix", "obj": obj}
    if kind == "scribble":
        return {"op": "scribble", "obj": obj,
                "scribble": [[rng.randint(0, 60), rng.randint(0, 60)]
                             for _ in range(rng.choice([1, 3, 12]))]}
    if kind == "image":
        r = rng.random()
        f = ("default" if r < 0.12 else "pil" if r < 0.25 else "pypng" if r < 0.45 else
             "svg" if r < 0.6 else "svgpath" if r < 0.75 else "svgfrag" if r < 0.92 else
             "styled")
        op = {"op": "image", "obj": obj, "factory": f}
        if f == "styled" and rng.random() < 0.7:
            kw = {"module_drawer": rng.choice(STYLED_DRAWERS)}
            if rng.random() < 0.4:
                kw["eye_drawer"] = rng.choice(STYLED_DRAWERS)
            if rng.random() < 0.3:
                kw["color_mask"] = rng.choice(STYLED_MASKS)
            op["kwargs"] = kw
        elif f in ("svg", "svgpath") and rng.random() < 0.3:
            op["kwargs"] = {"module_drawer": rng.choice(["circle", "gapped-circle",
                                                         "gapped-square"])}
        if rng.random() < 0.25:
            op["fail_write_at"] = rng.choice([0, 1, 2, 4])
        return op
    if kind == "print_ascii":
        variant = rng.choice(["plain", "invert", "tty"])
        op = {"op": "print_ascii", "obj": obj, "tty": variant == "tty",
              "invert": variant == "invert" or (variant == "tty" and rng.random() < 0.3)}
        op["stream"] = _gen_stream(rng, variant == "tty", focus)
        return op
    if kind == "print_tty":
        return {"op": "print_tty", "obj": obj, "stream": _gen_stream(rng, True, focus)}
    if kind == "other":
        return {"op": "other", "version": _gen_version(rng, tier),
                "p": enc_payload(rng.choice(["o", "OTHER", "123"])),
                "mask": rng.randint(0, 7), "level": rng.choice(list(LEVELS.values()))}
    if kind == "new":
        return gen_new(rng, obj, tier, focus)
    raise ValueError(kind)


def gen_new(rng, obj, tier, focus, force_valid=False):
    kw = {}
    if rng.random() < 0.6:
        kw["version"] = None if rng.random() < 0.3 else _gen_version(rng, tier)
    if rng.random() < 0.5:
        kw["error_correction"] = rng.choice(list(LEVELS.values()))
    if rng.random() < 0.65:
        kw["mask_pattern"] = rng.choice([None, 0, 1, 2, 3, 4, 5, 6, 7])
    if rng.random() < 0.5:
        kw["border"] = rng.choice(BORDERS)
    if rng.random() < 0.5:
        kw["box_size"] = rng.choice([1, 1, 2, 3, 6])
    else:
        kw["box_size"] = rng.choice([1, 2])      # keep rasters small
    if isinstance(kw.get("version"), int) and kw["version"] > 10 and \
            kw.get("mask_pattern") is None:
        kw["mask_pattern"] = rng.randrange(8)
    p_bad = 0.0 if force_valid else (0.6 if focus == "C18" else 0.12)
    if rng.random() < p_bad:
        for attr in rng.sample(["version", "mask_pattern", "border", "box_size"],
                               rng.choice([1, 1, 1, 2])):
            kw[attr] = rng.choice(INVALID[attr])
    elif not force_valid and rng.random() < 0.2:
        attr = rng.choice(["version", "mask_pattern", "border", "box_size"])
        kw[attr] = rng.choice(VALID_EDGE[attr])
    return {"op": "new", "obj": obj, "kw": kw}


def generate(rng, tier, opts, index=None):
    focus = (opts or {}).get("focus", "C11")
    w = _weights(focus)
    # swarm: enable a random subset of operation kinds for this run
    kinds = [k for k in OP_KINDS if rng.random() < 0.7]
    for must in ("add", "make_fit"):
        if must not in kinds:
            kinds.append(must)
    if focus == "C15" and not {"print_ascii", "print_tty"} & set(kinds):
        kinds.append("print_ascii")
    if focus == "C16" and "get_matrix" not in kinds:
        kinds.append("get_matrix")
    if focus == "C18" and "set_invalid" not in kinds:
        kinds.append("set_invalid")
    weights = [w[k] for k in kinds]
    nobj = rng.choice([1, 1, 1, 1, 2, 2, 3])
    pool = rng.sample(PAYLOADS, rng.randint(2, 4))
    if tier == "thorough" and rng.random() < 0.05:
        pool.append(rng.choice(BIG_PAYLOADS))
    r = rng.random()
    length = rng.randint(1, 5) if r < 0.7 else rng.randint(6, 14)
    ckind = rng.choice(["cold", "cold", "warm", "preused"])
    cache = {"kind": ckind}
    if ckind != "cold":
        cache["versions"] = sorted({_gen_version(rng, tier) for _ in range(rng.randint(1, 3))})
    ops = []
    for o in range(nobj):
        ops.append(gen_new(rng, o, tier, focus, force_valid=True))
        if rng.random() < 0.85:
            ops.append(gen_op(rng, "add", o, pool, tier, focus))
    # stratified skeleton for low indices: every ordered d-tuple of the 14-op alphabet
    # (d = 3 in the quick tier, 4 in the thorough tier, VERIF_SKELETON_DEPTH overrides)
    skeleton = []
    depth = int(os.environ.get("VERIF_SKELETON_DEPTH") or (4 if tier == "thorough" else 3))
    if index is not None and index < len(SKELETON) ** depth:
        i = index
        for _ in range(depth):
            skeleton.append(SKELETON[i % len(SKELETON)])
            i //= len(SKELETON)
        ops.append({"op": "make", "obj": 0, "fit": True})
        length = max(length, depth)
    for k in range(length):
        kind = skeleton[k] if k < len(skeleton) else rng.choices(kinds, weights)[0]
        obj = 0 if k < len(skeleton) else rng.randrange(nobj)
        ops.append(gen_op(rng, kind, obj, pool, tier, focus))
    # a history should end in something observable
    if rng.random() < 0.6:
        tail = {"C11": ["make_fit", "make_nofit", "get_matrix"], "C15": ["print_ascii", "print_tty"],
                "C16": ["get_matrix"], "C18": ["image", "get_matrix", "make_fit"]}[focus]
        ops.append(gen_op(rng, rng.choice(tail), rng.randrange(nobj), pool, tier, focus))
    return {"cache": cache, "ops": ops, "canary": True}


# --------------------------------------------------------------------------
# engine interface
# --------------------------------------------------------------------------

def worker_init(prop, tier, opts):
    core.import_target()
    return {"fs": ForkServer(ref_handler)}


def worker_fini(ctx):
    pass


def execute(ctx, case, log):
    res = ctx["fs"].run(run_case, case, timeout=400.0)
    log.lines.extend(res["log"][1:])
    vs = [Violation.from_json(v) for v in res["violations"]]
    ctx["last"] = res
    return vs, res["stats"], res["steps"]


def history_hash(case):
    return core.short_hash(case["ops"])


def run_index(ctx, prop, tier, master, idx, opts):
    seed = core.derive_seed(master, prop, idx)
    rng = random.Random(seed)
    case = generate(rng, tier, opts, index=idx)
    log = EventLog(seed)
    violations, stats, steps = execute(ctx, case, log)
    stats.inc("runs")
    nt = ctx["last"]["nontrivial"]
    for p, flag in nt.items():
        if flag:
            stats.add("nontrivial." + p, history_hash(case))
    sample = None
    if idx < 400 and nt.get(prop) and len(case["ops"]) <= 8:
        sample = {"run_index": idx, "cache": case["cache"], "ops": case["ops"]}
    return core.RunOutcome(idx, seed, log.digest(), violations, case, stats, sample, steps)


# --------------------------------------------------------------------------
# minimisation
# --------------------------------------------------------------------------

def _fails(ctx, case, key):
    if core.min_expired():
        return False
    v, _, _ = execute(ctx, case, EventLog(0))
    return any(x.key() == key for x in v)


def minimise(ctx, case, violation):
    key = violation.key()
    case = dict(case)
    case["ops"] = core.ddmin(case["ops"], lambda ops: _fails(ctx, dict(case, ops=ops), key),
                             max_tests=250)
    if case.get("cache", {}).get("kind") != "cold":
        t = dict(case, cache={"kind": "cold"})
        if _fails(ctx, t, key):
            case = t
    if case.get("canary", True):
        t = dict(case, canary=False)
        if _fails(ctx, t, key):
            case = t
    # simplify arguments
    for i, op in enumerate(case["ops"]):
        trials = []
        if "p" in op and op["p"] != ["s", "a"]:
            trials.append(dict(op, p=["s", "a"]))
        if "stream" in op and op["stream"]:
            trials.append(dict(op, stream={}))
        if op.get("fail_write_at") is not None:
            t = dict(op)
            del t["fail_write_at"]
            trials.append(t)
        if op["op"] == "new" and op["kw"]:
            for k in list(op["kw"]):
                kw = dict(op["kw"])
                del kw[k]
                trials.append(dict(op, kw=kw))
        for t in trials:
            ops = list(case["ops"])
            ops[i] = t
            if _fails(ctx, dict(case, ops=ops), key):
                case["ops"] = ops
                op = t
    return case


# --------------------------------------------------------------------------
# evidence
# --------------------------------------------------------------------------

RULES = {
    "C11": ("one evaluation = one seeded history (initial process-cache state + 1-14 public "
            "operations with stream faults on 1-3 objects + canary epilogue), every compile "
            "and lazy compile compared with a fresh object in a pristine forked process; "
            "non-trivial = the history contains a successful compile on an object that had "
            "been compiled before and whose data or settings changed in between; distinct by "
            "hash of the operation list"),
    "C15": ("one evaluation = one seeded history; non-trivial = at least one print_ascii / "
            "print_tty call was read back cell by cell against the symbol, or a tty variant "
            "was offered a non-tty stream; distinct by hash of the operation list"),
    "C16": ("one evaluation = one seeded history; non-trivial = at least one get_matrix() "
            "result was checked cell by cell (size, centre, frame); distinct by hash of the "
            "operation list"),
    "C18": ("one evaluation = one seeded history; non-trivial = at least one out-of-range "
            "value was offered (constructor or assignment) or an image was requested under a "
            "pending out-of-range box size; distinct by hash of the operation list"),
}


def coverage(merged, tier, prop):
    st = merged["stats"]
    cov = {
        "evaluations": merged["runs"],
        "distinct_nontrivial": st.distinct("nontrivial." + prop),
        "rule": RULES[prop],
        "samples": merged["samples"][:4] or [{"note": "no short non-trivial sample among "
                                                       "the first 400 run indices"}],
        "operations_executed": merged["steps"],
        "operations_by_kind": st.group("op."),
        "faults_fired": st.group("fault."),
        "probes": st.group("probe."),
        "initial_cache_states": st.group("cache."),
        "renderer_calls_by_compile_need": st.group("render."),
        "canary_compiles": st.count("canary.compiles"),
        "simulated_time": "no clock in the code under test; logical steps = operations",
        "components": {
            "real": ["qrcode.QRCode and everything below it (util, base, LUT, image "
                     "factories, Pillow, pypng, xml.etree)",
                     "reference model = the same library on a fresh object in a pristine "
                     "forked process"],
            "stub": ["caller-supplied text streams (SimStream: tty flag, write/flush faults)",
                     "caller-supplied binary sinks for image.save (SimByteSink: write faults)",
                     "sys.stdout replaced by a SimStream for out=None calls"]},
    }
    if prop == "C11":
        cov["distinct_interleavings_or_states"] = {
            "measure": "distinct (abstract pre-state, make(fit?), outcome) tuples; abstract "
                       "pre-state = (compiled?, compile-needed, version vs compiled version, "
                       "level vs compiled level, mask auto/set, cache warm for this version, "
                       "last compile failed)",
            "count": st.distinct("c11.states")}
    if prop == "C15":
        cov["print_evaluations"] = st.group("c15.")
        cov["distinct_interleavings_or_states"] = {
            "measure": "distinct (call, variant, border, version, lazy/clean) tuples read back",
            "count": st.distinct("c15.tuples")}
    if prop == "C16":
        cov["get_matrix_evaluations"] = st.group("c16.")
        cov["distinct_interleavings_or_states"] = {
            "measure": "distinct (version, border) pairs checked", "count": st.distinct("c16.pairs")}
    if prop == "C18":
        cov["decisions"] = st.group("c18.")
        cov["distinct_interleavings_or_states"] = {
            "measure": "distinct (setting, value, channel) tuples offered",
            "count": st.distinct("c18.tuples")}
    return cov


def assumptions(prop):
    base = [
        "reference = the library itself on a fresh object in a pristine forked process "
        "(differential oracle: says nothing about ISO conformance, which C11 does not claim)",
        "Pillow, pypng, decimal and xml.etree run for real and are trusted to be deterministic",
        "sampling of histories, not enumeration; low run indices are stratified over every "
        "ordered triple (quick) / 4-tuple (thorough) of a 14-operation alphabet, arguments "
        "stay seeded",
    ]
    if prop == "C15":
        base.append("glyph conventions: half blocks (NBSP, U+2580, U+2584, U+2588); ink is dark "
                    "in the plain variant and light in the inverted/tty variants unless SGR "
                    "colours say otherwise; the spare half row is unconstrained")
    if prop == "C18":
        base.append("in-range means: version None or 1..40, mask None or int 0..7, border int "
                    ">= 0, box_size int >= 1 (the property's own statement)")
    return base
