"""Pristine-process services for the simulators.

The *worker* process imports the library under test once and never calls into
it.  Everything that executes library code runs in a child forked from that
pristine image:

* ``ForkServer.run(fn, arg)`` forks a *run child* that executes one simulated
  run (so process-wide state never leaks from one run to the next and a replay
  in a fresh interpreter starts from the same state);
* while it runs, the child may call ``ref(spec)``: the worker answers from a
  memo or forks a *reference child* that computes ``handler(spec)`` in a
  pristine process - the reference model "fresh object / solo run in a process
  that has produced nothing yet".

Messages are length-prefixed pickles over a socketpair.
"""

from __future__ import annotations

import os
import pickle
import select
import signal
import socket
import struct
import sys
import traceback

from .core import HarnessError


def _send(sock, obj):
    data = pickle.dumps(obj, protocol=pickle.HIGHEST_PROTOCOL)
    sock.sendall(struct.pack(">I", len(data)) + data)


def _recv_exact(sock, n):
    chunks = []
    while n:
        b = sock.recv(min(n, 1 << 20))
        if not b:
            raise EOFError
        chunks.append(b)
        n -= len(b)
    return b"".join(chunks)


def _recv(sock):
    (n,) = struct.unpack(">I", _recv_exact(sock, 4))
    return pickle.loads(_recv_exact(sock, n))


class ChildFailure(Exception):
    pass


class ForkServer:
    def __init__(self, handler, memo_cap=40000, memo_bytes=192 << 20):
        self.handler = handler
        self.memo = {}
        self.memo_cap = memo_cap
        self.memo_bytes = memo_bytes      # per worker: 16 workers stay below ~3 GB
        self.memo_size = 0
        self.ref_calls = 0
        self.ref_forks = 0

    # ---- reference children ------------------------------------------------
    def reference(self, spec):
        key = pickle.dumps(spec, protocol=4)
        self.ref_calls += 1
        hit = self.memo.get(key)
        if hit is not None:
            return hit
        r, w = os.pipe()
        pid = os.fork()
        if pid == 0:
            code = 0
            try:
                os.close(r)
                try:
                    res = ("ok", self.handler(spec))
                except BaseException:  # noqa
                    res = ("err", traceback.format_exc())
                data = pickle.dumps(res, protocol=pickle.HIGHEST_PROTOCOL)
                with os.fdopen(w, "wb") as f:
                    f.write(data)
            except BaseException:  # noqa
                code = 3
            finally:
                os._exit(code)
        os.close(w)
        self.ref_forks += 1
        with os.fdopen(r, "rb") as f:
            data = f.read()
        _, status = os.waitpid(pid, 0)
        if status != 0 or not data:
            raise HarnessError(f"reference child failed (status {status}) for {spec!r}")
        kind, val = pickle.loads(data)
        if kind != "ok":
            raise HarnessError(f"reference handler raised for {spec!r}:\n{val}")
        if len(self.memo) >= self.memo_cap or self.memo_size + len(data) > self.memo_bytes:
            self.memo.clear()
            self.memo_size = 0
        self.memo[key] = val
        self.memo_size += len(data) + len(key)
        return val

    # ---- run children --------------------------------------------------------
    def run(self, fn, arg, timeout=120.0):
        """Execute fn(arg, ref) in a forked child and return its result."""
        parent_sock, child_sock = socket.socketpair()
        pid = os.fork()
        if pid == 0:
            code = 0
            try:
                parent_sock.close()
                # whatever the code under test does to the *real* fds 0/1/2 (os.write(1, ..),
                # os.read(0, ..)) must not reach this check's own stdin/stdout/stderr
                devnull = os.open(os.devnull, os.O_RDWR)
                for fd in (0, 1, 2):
                    os.dup2(devnull, fd)
                os.close(devnull)

                def ref(spec):
                    _send(child_sock, ("ref", spec))
                    return _recv(child_sock)

                try:
                    res = ("done", fn(arg, ref))
                except BaseException:  # noqa
                    res = ("crash", traceback.format_exc())
                _send(child_sock, res)
                child_sock.close()
            except BaseException:  # noqa
                code = 3
            finally:
                os._exit(code)
        child_sock.close()
        try:
            while True:
                ready, _, _ = select.select([parent_sock], [], [], timeout)
                if not ready:
                    os.kill(pid, signal.SIGKILL)
                    os.waitpid(pid, 0)
                    raise HarnessError(f"run child exceeded {timeout}s (hang)")
                try:
                    msg = _recv(parent_sock)
                except EOFError:
                    _, status = os.waitpid(pid, 0)
                    raise HarnessError(f"run child died without result (status {status})")
                if msg[0] == "ref":
                    _send(parent_sock, self.reference(msg[1]))
                    continue
                os.waitpid(pid, 0)
                if msg[0] == "crash":
                    raise HarnessError("run child raised inside the simulator:\n" + msg[1])
                return msg[1]
        finally:
            parent_sock.close()
            try:
                done, _ = os.waitpid(pid, os.WNOHANG)
                if done == 0:
                    os.kill(pid, signal.SIGKILL)
                    os.waitpid(pid, 0)
            except (ChildProcessError, ProcessLookupError):
                pass
