"""Terminal read-back: turn what print_ascii / print_tty wrote back into a
module matrix, using only the glyph and escape conventions (half blocks,
ANSI SGR colours).  Independent of the library's rendering code.
"""

from __future__ import annotations

import re

NBSP, UPPER, LOWER, FULL = " ", "▀", "▄", "█"
GLYPH = {NBSP: (0, 0), UPPER: (1, 0), LOWER: (0, 1), FULL: (1, 1)}   # (top ink, bottom ink)
SGR = re.compile(r"\x1b\[([0-9;]*)m")

LIGHT, DARK, DEFAULT = "light", "dark", "default"


class Unreadable(Exception):
    pass


def _colour_of_256(n):
    if n in (255, 15, 7, 231) or 250 <= n <= 255:
        return LIGHT
    if n in (232, 0, 16) or 232 <= n <= 237:
        return DARK
    raise Unreadable(f"colour index {n} is neither clearly light nor dark")


def _apply_sgr(params, state):
    """state = [fg, bg]; returns updated state.  Only colour-relevant codes are
    interpreted; bold (1) is ignored."""
    fg, bg = state
    codes = [int(p) if p else 0 for p in params.split(";")] if params else [0]
    i = 0
    while i < len(codes):
        c = codes[i]
        if c == 0:
            fg, bg = DEFAULT, DEFAULT
        elif c == 1:
            pass
        elif c in (38, 48) and i + 2 < len(codes) + 0 and codes[i + 1] == 5:
            col = _colour_of_256(codes[i + 2])
            if c == 38:
                fg = col
            else:
                bg = col
            i += 2
        elif c == 37 or c == 97:
            fg = LIGHT
        elif c == 30:
            fg = DARK
        elif c == 47 or c == 107:
            bg = LIGHT
        elif c == 40:
            bg = DARK
        elif c == 39:
            fg = DEFAULT
        elif c == 49:
            bg = DEFAULT
        else:
            raise Unreadable(f"unsupported SGR code {c}")
        i += 1
    return [fg, bg]


def _tokens(line):
    pos = 0
    for m in SGR.finditer(line):
        for ch in line[pos:m.start()]:
            yield ("ch", ch)
        yield ("sgr", m.group(1))
        pos = m.end()
    for ch in line[pos:]:
        yield ("ch", ch)


def read_half_blocks(text, variant):
    """variant: 'plain' | 'invert' | 'tty'.  Returns a list of rows (lists of
    bool, True = dark) with 2 rows per text line (the final spare half row
    included; the caller drops it).

    Convention: the ink (filled half of a glyph) takes the foreground colour,
    the rest the background colour.  With default colours the ink is dark for
    the plain variant and light for the inverted ones (made for dark
    terminals); explicit SGR colours override the default."""
    if not text.endswith("\n"):
        raise Unreadable("output does not end with a newline")
    lines = text[:-1].split("\n")
    rows = []
    default_ink = DARK if variant == "plain" else LIGHT
    for li, line in enumerate(lines):
        state = [DEFAULT, DEFAULT]
        top, bot = [], []
        for kind, val in _tokens(line):
            if kind == "sgr":
                state = _apply_sgr(val, state)
                continue
            if val not in GLYPH:
                raise Unreadable(f"line {li}: unexpected character {val!r}")
            fg, bg = state
            ink = default_ink if fg == DEFAULT else fg
            if bg == DEFAULT:
                rest = DARK if ink == LIGHT else LIGHT
            else:
                rest = bg
            t, b = GLYPH[val]
            top.append((ink if t else rest, t, fg, bg))
            bot.append((ink if b else rest, b, fg, bg))
        if variant == "tty" and state != [DEFAULT, DEFAULT]:
            raise Unreadable(f"line {li}: colours not reset at end of line")
        rows.append(top)
        rows.append(bot)
    return rows


def matrix_from_half_blocks(text, variant, side):
    """Read back a side x side matrix; checks the geometry (line count, line
    width) and that no cell of the framed matrix has ink == background."""
    rows = read_half_blocks(text, variant)
    want_lines = (side + 1) // 2
    if len(rows) != 2 * want_lines:
        raise Unreadable(f"{len(rows) // 2} text lines, expected {want_lines} for side {side}")
    out = []
    for r in range(side):
        row = rows[r]
        if len(row) != side:
            raise Unreadable(f"row {r}: {len(row)} cells, expected {side}")
        cells = []
        for c, (colour, ink, fg, bg) in enumerate(row):
            if fg != DEFAULT and bg != DEFAULT and fg == bg:
                raise Unreadable(f"row {r}: foreground equals background")
            if variant == "tty" and (fg if ink else bg) == DEFAULT:
                # the tty variant exists to *force* colours: a half cell of the framed
                # matrix whose colour is left to the terminal's default does not follow
                # its escape convention (the spare half row below is not part of it)
                raise Unreadable(f"cell ({r},{c}): {'foreground' if ink else 'background'} "
                                 f"colour left to the terminal default in the tty variant")
            cells.append(colour == DARK)
        out.append(cells)
    return out


def matrix_from_tty_colours(text, side):
    """print_tty read-back: every module is two space characters whose
    *background* colour is its colour.  side = modules + 2 (one-module frame)."""
    if not text.endswith("\n"):
        raise Unreadable("output does not end with a newline")
    lines = text[:-1].split("\n")
    if len(lines) != side:
        raise Unreadable(f"{len(lines)} lines, expected {side}")
    out = []
    for li, line in enumerate(lines):
        state = [DEFAULT, DEFAULT]
        cols = []
        for kind, val in _tokens(line):
            if kind == "sgr":
                state = _apply_sgr(val, state)
                continue
            if val != " ":
                raise Unreadable(f"line {li}: unexpected character {val!r}")
            if state[1] == DEFAULT:
                raise Unreadable(f"line {li}: cell drawn with default background")
            cols.append(state[1])
        if state != [DEFAULT, DEFAULT]:
            raise Unreadable(f"line {li}: colours not reset at end of line")
        if len(cols) != 2 * side:
            raise Unreadable(f"line {li}: {len(cols)} half-cells, expected {2 * side}")
        row = []
        for k in range(side):
            a, b = cols[2 * k], cols[2 * k + 1]
            if a != b:
                raise Unreadable(f"line {li}: cell {k} has two colours")
            row.append(a == DARK)
        out.append(row)
    return out


def frame(modules, border):
    """modules framed by `border` light modules on every side."""
    n = len(modules)
    side = n + 2 * border
    out = [[False] * side for _ in range(border)]
    for row in modules:
        out.append([False] * border + [bool(x) for x in row] + [False] * border)
    out += [[False] * side for _ in range(border)]
    return out
