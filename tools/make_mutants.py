#!/venv/bin/python
"""Generates /verif/mutants/<name>.diff from a table of (file, old, new)
string replacements against /repo HEAD.  The diffs are what the mutation audit
applies; this script only exists so that they are reproducible."""
import os
import subprocess
import sys
import tempfile

HERE = os.path.dirname(os.path.dirname(os.path.abspath(__file__)))
OUT = os.path.join(HERE, "mutants")

M = []


def mut(name, prop, file, old, new, why):
    M.append((name, prop, [(file, old, new)], why))


def mut2(name, prop, edits, why):
    M.append((name, prop, edits, why))


MAIN = "qrcode/main.py"
CLI = "qrcode/console_scripts.py"
REL = "qrcode/release.py"
SVG = "qrcode/image/svg.py"
UTIL = "qrcode/util.py"

# ---------------- C11 ----------------
mut("c11_add_data_keeps_cache", "C11", MAIN,
    "            self.data_list.append(util.QRData(data))\n        self.data_cache = None\n",
    "            self.data_list.append(util.QRData(data))\n",
    "add_data no longer marks the object dirty: renderers after add_data show the old symbol")
mut("c11_blank_stored_without_copy", "C11", MAIN,
    "            precomputed_qr_blanks[self.version] = copy_2d_array(self.modules)\n",
    "            precomputed_qr_blanks[self.version] = self.modules\n",
    "process-wide blank aliased to the first object's matrix: later symbols of that version are poisoned")
mut("c11_blank_loaded_without_copy", "C11", MAIN,
    "            self.modules = copy_2d_array(precomputed_qr_blanks[self.version])\n",
    "            self.modules = precomputed_qr_blanks[self.version]\n",
    "objects share the cached blank: second compile of a version writes into the cache")
mut("c11_clear_forgets_data_list", "C11", MAIN,
    "        self.data_cache = None\n        self.data_list = []\n",
    "        self.data_cache = None\n        self.data_list = self.data_list[:1] if len(getattr(self, 'data_list', [])) >= 3 else []\n",
    "clear() keeps the first segment when there were three or more")
mut("c11_make_keeps_cache", "C11", MAIN,
    "        self.data_cache = None\n        if self.mask_pattern is None:\n",
    "        if self.mask_pattern is None:\n",
    "reverts the fix: stale codewords after version/level change")
mut("c11_best_fit_sticky_level", "C11", MAIN,
    "        if start is None:\n            start = 1\n        util.check_version(start)\n",
    "        if start is None:\n            start = getattr(self, '_last_start', 1)\n        self._last_start = start\n        util.check_version(start)\n",
    "best_fit() remembers the last explicit start: history leaks into fitting")
mut2("c11_get_matrix_memoised", "C11", [
    (MAIN, "        if not self.border:\n            return self.modules\n",
     "        if not self.border:\n            return self.modules\n        memo = getattr(self, '_matrix_memo', None)\n        if memo is not None and memo[0] == (self.border, len(self.modules)):\n            return memo[1]\n"),
    (MAIN, "        code += [[False] * width] * self.border\n\n        return code\n",
     "        code += [[False] * width] * self.border\n        self._matrix_memo = ((self.border, len(self.modules)), code)\n\n        return code\n")],
    "get_matrix caches its result keyed on (border, size): stale after add_data+recompile at same size")

# ---------------- C15 ----------------
mut("c15_glyphs_swapped", "C15", MAIN,
    "for code in (255, 223, 220, 219)]", "for code in (255, 220, 223, 219)]",
    "upper/lower half-block glyphs swapped")
mut("c15_row_pairing", "C15", MAIN,
    "pos = get_module(r, c) + (get_module(r + 1, c) << 1)",
    "pos = get_module(r, c) + (get_module(r + 2, c) << 1)",
    "pairs rows (r, r+2)")
mut("c15_transposed", "C15", MAIN,
    "            return cast(int, self.modules[x][y])\n",
    "            return cast(int, self.modules[y][x])\n",
    "print_ascii transposes the symbol")
mut("c15_border_off_by_one", "C15", MAIN,
    "            for c in range(-self.border, modcount + self.border):\n                pos = get_module",
    "            for c in range(-self.border, modcount + self.border - (1 if self.border > 2 else 0)):\n                pos = get_module",
    "right quiet zone one module short for borders > 2")
mut("c15_isatty_after_write", "C15", MAIN,
    "        if tty and not out.isatty():\n            raise OSError(\"Not a tty\")\n\n        if self.data_cache is None:\n            self.make()\n\n        modcount = self.modules_count\n        codes =",
    "        if self.data_cache is None:\n            self.make()\n\n        if tty:\n            out.write(\"\\x1b[0m\")\n        if tty and not out.isatty():\n            raise OSError(\"Not a tty\")\n\n        modcount = self.modules_count\n        codes =",
    "tty variant writes a reset sequence before checking isatty()")
mut("c15_print_tty_no_lazy_compile", "C15", MAIN,
    "            raise OSError(\"Not a tty\")\n\n        if self.data_cache is None:\n            self.make()\n\n        modcount = self.modules_count\n        out.write(\"\\x1b[1;47m\" + (\" \" * (modcount * 2 + 4))",
    "            raise OSError(\"Not a tty\")\n\n        if self.data_cache is None and not self.modules_count:\n            self.make()\n\n        modcount = self.modules_count\n        out.write(\"\\x1b[1;47m\" + (\" \" * (modcount * 2 + 4))",
    "print_tty only compiles when never compiled: stale after add_data")
mut("c15_print_tty_last_col", "C15", MAIN,
    "                if self.modules[r][c]:\n                    out.write(\"  \")\n",
    "                if self.modules[r][c] and not (r > 8 and c == modcount - 1 and r % 7 == 0):\n                    out.write(\"  \")\n",
    "print_tty drops some dark modules in the last column")
mut("c15_invert_bottom_border", "C15", MAIN,
    "            if invert and self.border and max(x, y) >= modcount + self.border:\n                return 1\n",
    "            if invert and self.border and max(x, y) >= modcount + self.border - 1:\n                return 1\n",
    "inverted variants paint the last border row/column dark")

# ---------------- C16 ----------------
mut("c16_bottom_border_short", "C16", MAIN,
    "        code += [[False] * width] * self.border\n",
    "        code += [[False] * width] * (self.border - (1 if self.border > 3 else 0))\n",
    "bottom frame one row short for border > 3")
mut("c16_frame_true_corner", "C16", MAIN,
    "        x_border = [False] * self.border\n",
    "        x_border = [False] * self.border\n        if self.border == 2:\n            x_border = [False, None]\n",
    "frame cell None for border 2")
mut("c16_skip_lazy_compile_when_compiled_once", "C16", MAIN,
    "        if self.data_cache is None:\n            self.make()\n\n        if not self.border:\n",
    "        if self.data_cache is None and not self.modules_count:\n            self.make()\n\n        if not self.border:\n",
    "get_matrix only compiles on never-compiled objects")
mut("c16_left_right_asym", "C16", MAIN,
    "            code.append(x_border + cast(List[bool], module) + x_border)\n",
    "            code.append(x_border + cast(List[bool], module) + (x_border[:-1] if len(self.modules) > 40 else x_border))\n",
    "right frame one short for versions >= 7 (rows ragged)")

# ---------------- C18 ----------------
mut("c18_version_41_ok", "C18", UTIL,
    "    if version < 1 or version > 40:\n", "    if version < 1 or version > 41:\n",
    "version 41 accepted")
mut("c18_version_0_ok", "C18", UTIL,
    "    if version < 1 or version > 40:\n", "    if version < 0 or version > 40:\n",
    "version 0 accepted")
mut("c18_mask_8_ok", "C18", MAIN,
    "    if mask_pattern < 0 or mask_pattern > 7:\n", "    if mask_pattern < 0 or mask_pattern > 8:\n",
    "mask 8 accepted")
mut("c18_mask_neg_ok", "C18", MAIN,
    "    if mask_pattern < 0 or mask_pattern > 7:\n", "    if mask_pattern < -1 or mask_pattern > 7:\n",
    "mask -1 accepted")
mut("c18_box_zero_ok", "C18", MAIN,
    "    if int(size) <= 0:\n", "    if int(size) < 0:\n", "box_size 0 accepted")
mut("c18_border_setter_unchecked", "C18", MAIN,
    "        _check_border(value)\n        self._border = int(value)\n",
    "        self._border = int(value)\n",
    "reverts the fix: border assignment unchecked")
mut("c18_make_image_no_box_check", "C18", MAIN,
    "        _check_box_size(self.box_size)\n        if self.data_cache is None:\n            self.make()\n\n        if image_factory is not None:",
    "        if self.data_cache is None:\n            self.make()\n\n        if image_factory is not None:",
    "make_image no longer checks the box size assigned after construction")
mut("c18_version_set_before_check", "C18", MAIN,
    "            value = int(value)\n            util.check_version(value)\n        self._version = value\n",
    "            value = int(value)\n            self._version = value\n            util.check_version(value)\n        self._version = value\n",
    "rejected version sticks")
mut("c18_mask_float_ok", "C18", MAIN,
    "    if not isinstance(mask_pattern, int):\n", "    if not isinstance(mask_pattern, (int, float)):\n",
    "float mask accepted (ValueError path / accepted)")
mut("c18_version_40_rejected", "C18", UTIL,
    "    if version < 1 or version > 40:\n", "    if version < 1 or version >= 40:\n",
    "in-range version 40 rejected")

# ---------------- C20 ----------------
mut("c20_zero_padded_day", "C20", REL, '"%-d %b %Y"', '"%d %b %Y"', "zero-padded day")
mut("c20_swap_fields", "C20", REL,
    '            parts[3] = data["new_version"]\n            # Update date\n            parts[1] = datetime.datetime.now().strftime("%-d %b %Y")\n',
    '            parts[1] = data["new_version"]\n            # Update date\n            parts[3] = datetime.datetime.now().strftime("%-d %b %Y")\n',
    "date and version fields swapped on write (compare still on parts[3])")
mut("c20_no_break", "C20", REL,
    "            lines[i] = '\"'.join(parts)\n        break\n",
    "            lines[i] = '\"'.join(parts)\n",
    "drops the break: later '.TH ' lines reset `changed`")
mut("c20_no_name_check", "C20", REL,
    '    if data["name"] != "qrcode":\n        return\n', '    if data["name"] not in ("qrcode", "qrcode2"):\n        return\n',
    "another package name also stamps the page")
mut("c20_always_write", "C20", REL,
    "    if changed:\n        with open(filename, \"w\") as f:",
    "    if changed or len(lines) > 11:\n        with open(filename, \"w\") as f:",
    "long pages are rewritten even when nothing changed")
mut("c20_startswith_TH", "C20", REL,
    'if not line.startswith(".TH "):', 'if not line.startswith(".TH"):',
    ".THX lines taken as headers")
mut("c20_drop_last_line", "C20", REL,
    "            for line in lines:\n                f.write(line)\n",
    "            for line in lines[: -1 if len(lines) > 7 else None]:\n                f.write(line)\n",
    "last line of long pages lost on write")
mut("c20_date_always", "C20", REL,
    '        changed = parts[3] != data["new_version"]\n',
    '        changed = parts[3] != data["new_version"] or parts[1].startswith("31 ")\n',
    "re-stamps when the stored date is the 31st: not idempotent across a clock change")
mut("c20_strip_trailing", "C20", REL,
    "            lines[i] = '\"'.join(parts)\n",
    "            lines[i] = '\"'.join(parts)\n            if lines[i].endswith('  \\n'):\n                lines[i] = lines[i].rstrip() + '\\n'\n",
    "strips trailing blanks of the header line when it ends in two spaces")

# ---------------- C17 ----------------
mut("c17_stdin_strip", "C17", CLI,
    "        data = sys.stdin.buffer.read()\n", "        data = sys.stdin.buffer.read().strip()\n",
    "whitespace stripped from stdin")
mut("c17_stdin_rstrip_newline", "C17", CLI,
    "        data = sys.stdin.buffer.read()\n", "        data = sys.stdin.buffer.read()\n        if data.endswith(b\"\\n\"):\n            data = data[:-1]\n",
    "one trailing newline dropped from stdin")
mut("c17_stdin_read1", "C17", CLI,
    "        data = sys.stdin.buffer.read()\n", "        data = sys.stdin.buffer.read1()\n",
    "single read() system call: short reads truncate the data")
mut("c17_stdin_readline", "C17", CLI,
    "        data = sys.stdin.buffer.read()\n", "        data = sys.stdin.buffer.readline()\n",
    "only the first line of stdin is encoded")
mut("c17_stdin_text_mode", "C17", CLI,
    "        data = sys.stdin.buffer.read()\n", "        try:\n            data = sys.stdin.read().encode()\n        except UnicodeDecodeError:\n            data = sys.stdin.buffer.read()\n",
    "stdin read in text mode first (newline translation, partial consumption on decode errors)")
mut("c17_levels_QH_swapped", "C17", CLI,
    '    "Q": qrcode.ERROR_CORRECT_Q,\n    "H": qrcode.ERROR_CORRECT_H,\n',
    '    "Q": qrcode.ERROR_CORRECT_H,\n    "H": qrcode.ERROR_CORRECT_Q,\n',
    "Q and H swapped in the option table")
mut("c17_optimize_ignored", "C17", CLI,
    "        qr.add_data(data, optimize=opts.optimize)\n", "        qr.add_data(data, optimize=opts.optimize or 20)\n",
    "--optimize 0 treated as absent")
mut("c17_output_ignores_factory", "C17", CLI,
    "    if opts.output:\n        img = qr.make_image(**kwargs)\n",
    "    if opts.output:\n        if opts.factory in ('png', 'pymaging'):\n            qr.image_factory = None\n        img = qr.make_image(**kwargs)\n",
    "--output with --factory png silently uses the default (Pillow) factory")
mut("c17_arg_errors_replace", "C17", CLI,
    '        data = data.encode(errors="surrogateescape")\n', '        data = data.encode(errors="replace")\n',
    "undecodable argv bytes replaced by '?'")
mut("c17_drawer_only_stdout", "C17", CLI,
    "    if opts.output:\n        img = qr.make_image(**kwargs)\n", "    if opts.output:\n        img = qr.make_image()\n",
    "partially reverts the fix: --output ignores a valid drawer")
mut("c17_glog_zero", "C17", "qrcode/base.py",
    "        if self[0] == 0:\n            # Only the zero polynomial keeps a zero leading term (see\n            # __init__), and its remainder is zero.\n            return self\n", "",
    "reverts the fix: all-zero RS block crashes the command")
mut("c17_unknown_drawer_falls_back", "C17", CLI,
    "        if opts.factory_drawer not in aliases:\n            raise_error(",
    "        if opts.factory_drawer not in aliases:\n            opts.factory_drawer = next(iter(aliases))\n        if opts.factory_drawer not in aliases:\n            raise_error(",
    "unknown drawer silently replaced by the first alias")
mut("c17_ascii_border", "C17", CLI,
    "            qr.print_ascii(tty=not opts.ascii)\n", "            qr.border = 4 if not opts.ascii else 2\n            qr.print_ascii(tty=not opts.ascii)\n",
    "--ascii art printed with a 2-module quiet zone")

# ---------------- C19 ----------------
mut2("c19_register_per_image", "C19", [
    (SVG, "    def __init__(self, *args, **kwargs):\n        super().__init__(*args, **kwargs)\n        # Save the unit size",
     "    def __init__(self, *args, **kwargs):\n        ET.register_namespace(\"svg\", self._SVG_namespace)\n        super().__init__(*args, **kwargs)\n        # Save the unit size")],
    "reverts the fix: namespace table rewritten for every image")
mut2("c19_blank_published_early", "C19", [
    (MAIN, "            self.modules = [\n                [None] * self.modules_count for i in range(self.modules_count)\n            ]\n",
     "            self.modules = [\n                [None] * self.modules_count for i in range(self.modules_count)\n            ]\n            blank = precomputed_qr_blanks[self.version] = copy_2d_array(self.modules)\n"),
    (MAIN, "            precomputed_qr_blanks[self.version] = copy_2d_array(self.modules)\n",
     "            for row, src in zip(blank, self.modules):\n                row[:] = src\n")],
    "cache slot reserved before the function patterns are drawn, filled afterwards: sequentially identical")
mut2("c19_scratch_bitbuffer", "C19", [
    (UTIL, "def create_data(version, error_correction, data_list):\n    buffer = BitBuffer()\n",
     "_scratch = BitBuffer()\n\n\ndef create_data(version, error_correction, data_list):\n    buffer = _scratch\n    buffer.buffer = []\n    buffer.length = 0\n")],
    "module-level scratch BitBuffer reused by every create_data call")
mut2("c19_class_level_subpaths", "C19", [
    (SVG, "    def __init__(self, *args, **kwargs):\n        self._subpaths: List[str] = []\n        super().__init__(*args, **kwargs)\n",
     "    _subpaths: List[str] = []\n\n    def __init__(self, *args, **kwargs):\n        del self._subpaths[:]\n        super().__init__(*args, **kwargs)\n"),
    (SVG, "        self._subpaths = []\n        self._img.append(self.path)\n",
     "        del self._subpaths[:]\n        self._img.append(self.path)\n")],
    "SvgPathImage collects subpaths in a class-level list")
mut2("c19_codes_reversed_in_place", "C19", [
    (MAIN, "def copy_2d_array(x):", "_ASCII_CODES = [bytes((code,)).decode(\"cp437\") for code in (255, 223, 220, 219)]\n\n\ndef copy_2d_array(x):"),
    (MAIN, "        codes = [bytes((code,)).decode(\"cp437\") for code in (255, 223, 220, 219)]\n", "        codes = _ASCII_CODES\n"),
    (MAIN, "            out.write(\"\\n\")\n        out.flush()\n", "            out.write(\"\\n\")\n        if invert:\n            codes.reverse()\n        out.flush()\n")],
    "print_ascii reverses a module-level glyph table in place and restores it at the end")
mut2("c19_drawer_shared_default", "C19", [
    ("qrcode/image/base.py", "    def get_default_module_drawer(self) -> QRModuleDrawer:\n        return self.default_drawer_class()\n",
     "    _default_drawers: Dict[type, QRModuleDrawer] = {}\n\n    def get_default_module_drawer(self) -> QRModuleDrawer:\n        cls = self.default_drawer_class\n        if cls not in self._default_drawers:\n            self._default_drawers[cls] = cls()\n        return self._default_drawers[cls]\n")],
    "default module drawer instances cached per class: the drawer keeps a reference to the *image* it was initialised for")

mut2("c19_current_pattern_cell", "C19", [
    (UTIL, "def mask_func(pattern):\n    \"\"\"\n    Return the mask function for the given mask pattern.\n    \"\"\"\n",
     "_current_pattern = [0]\n\n\ndef mask_func(pattern):\n    \"\"\"\n    Return the mask function for the given mask pattern.\n    \"\"\"\n    _current_pattern[0] = pattern; pattern = _current_pattern[0]\n")],
    "module-level one-element list holds the 'current' mask pattern for the duration of ONE line")
mut2("c19_current_level_global", "C19", [
    (UTIL, "def create_data(version, error_correction, data_list):\n    buffer = BitBuffer()\n",
     "_current_level = 0\n\n\ndef create_data(version, error_correction, data_list):\n    global _current_level\n    buffer = BitBuffer()\n"),
    (UTIL, "    rs_blocks = base.rs_blocks(version, error_correction)\n    bit_limit = sum(block.data_count * 8 for block in rs_blocks)\n    if len(buffer) > bit_limit:",
     "    _current_level = error_correction; rs_blocks = base.rs_blocks(version, _current_level)\n    bit_limit = sum(block.data_count * 8 for block in rs_blocks)\n    if len(buffer) > bit_limit:")],
    "module global scalar set and read within ONE line (window: a few bytecodes)")

mut("c17_output_append", "C17", CLI,
    '        with open(opts.output, "wb") as out:\n', '        with open(opts.output, "ab") as out:\n',
    "--output appends to an existing file instead of replacing it")

mut2("c19_abba_deadlock", "C19", [
    (MAIN, "precomputed_qr_blanks: Dict[int, ModulesType] = {}\n", "precomputed_qr_blanks: Dict[int, ModulesType] = {}\n_lock_odd = __import__(\"threading\").Lock()\n_lock_even = __import__(\"threading\").Lock()\n"),
    (MAIN, "            precomputed_qr_blanks[self.version] = copy_2d_array(self.modules)\n",
     "            first, second = (_lock_odd, _lock_even) if self.version % 2 else (_lock_even, _lock_odd)\n            with first:\n                blank = copy_2d_array(self.modules)\n                with second:\n                    precomputed_qr_blanks[self.version] = blank\n")],
    "two locks taken in an order that depends on the version parity: ABBA deadlock between an odd and an even version on cold caches")

mut("c15_tty_last_row_default_background", "C15", MAIN,
    "                if not invert or not self.border or r < modcount + self.border - 1:\n",
    "                if not invert or r < modcount + self.border - 1:\n",
    "reverts the fix: tty variant at border 0 leaves the last symbol row to the terminal's default background")
mut("c15_tty_no_background_on_two_lines", "C15", MAIN,
    "                if not invert or not self.border or r < modcount + self.border - 1:\n",
    "                if not invert or not self.border or r < modcount + self.border - 3:\n",
    "black background also skipped on the second-last text line")


# ==========================================================================
# BENIGN refactorings: the property still holds, the checks must stay silent
# (written to /verif/benign, audited with --props, expected rc 0)
# ==========================================================================
B = []


def ben(name, props, edits, why):
    B.append((name, props, edits, why))


ben("b20_atomic_write", "C20", [
    (REL, "    if changed:\n        with open(filename, \"w\") as f:\n            for line in lines:\n                f.write(line)\n",
     "    if changed:\n        import tempfile\n\n        fd, tmp = tempfile.mkstemp(dir=os.path.dirname(filename))\n        with os.fdopen(fd, \"w\") as f:\n            for line in lines:\n                f.write(line)\n        os.replace(tmp, filename)\n")],
    "write to a temporary file in the same directory, then os.replace (by-passes open())")
ben("b20_pathlib", "C20", [
    (REL, "    with open(filename) as f:\n        lines = f.readlines()\n",
     "    import pathlib\n\n    text = pathlib.Path(filename).read_text()\n    lines = [ln + \"\\n\" for ln in text.split(\"\\n\")]\n    lines[-1] = lines[-1][:-1]\n    if lines[-1] == \"\":\n        lines.pop()\n"),
    (REL, "        with open(filename, \"w\") as f:\n            for line in lines:\n                f.write(line)\n",
     "        pathlib.Path(filename).write_text(\"\".join(lines))\n")],
    "pathlib read_text / write_text")
ben("b20_regex_header", "C20", [
    (REL, "        parts = re.split(r'\"([^\"]*)\"', line)\n        if len(parts) < 5:\n            continue\n",
     "        if line.count('\"') < 4:\n            continue\n        parts = re.split(r'\"([^\"]*)\"', line)\n")],
    "well-formedness tested by counting quotes")
ben("b11_renderers_recompile_when_dirty_flag", "C11,C15,C16", [
    (MAIN, "        self.data_cache = None\n        self.data_list = []\n", "        self.data_cache = None\n        self._dirty = True\n        self.data_list = []\n"),
    (MAIN, "            self.data_list.append(util.QRData(data))\n        self.data_cache = None\n", "            self.data_list.append(util.QRData(data))\n        self.data_cache = None\n        self._dirty = True\n"),
    (MAIN, "        self.data_cache = None\n        if self.mask_pattern is None:\n", "        self.data_cache = None\n        self._dirty = False\n        if self.mask_pattern is None:\n"),
    (MAIN, "        if self.data_cache is None:\n            self.make()\n\n        if not self.border:\n", "        if self._dirty or self.data_cache is None:\n            self.make()\n\n        if not self.border:\n")],
    "a separate dirty flag next to the cache")
ben("b16_get_matrix_returns_copy", "C16,C11,C15", [
    (MAIN, "        if not self.border:\n            return self.modules\n", "        if not self.border:\n            return [list(row) for row in self.modules]\n")],
    "border 0 returns a copy instead of the symbol itself")
ben("b15_one_write_per_line", "C15,C11", [
    (MAIN, "                if not invert or not self.border or r < modcount + self.border - 1:\n                    out.write(\"\\x1b[48;5;232m\")  # Background black\n                out.write(\"\\x1b[38;5;255m\")  # Foreground white\n            for c in range(-self.border, modcount + self.border):\n                pos = get_module(r, c) + (get_module(r + 1, c) << 1)\n                out.write(codes[pos])\n            if tty:\n                out.write(\"\\x1b[0m\")\n            out.write(\"\\n\")\n",
     "                if not invert or not self.border or r < modcount + self.border - 1:\n                    line.append(\"\\x1b[48;5;232m\")  # Background black\n                line.append(\"\\x1b[38;5;255m\")  # Foreground white\n            for c in range(-self.border, modcount + self.border):\n                pos = get_module(r, c) + (get_module(r + 1, c) << 1)\n                line.append(codes[pos])\n            if tty:\n                line.append(\"\\x1b[0m\")\n            line.append(\"\\n\")\n            out.write(\"\".join(line))\n"),
    (MAIN, "        for r in range(-self.border, modcount + self.border, 2):\n            if tty:\n", "        for r in range(-self.border, modcount + self.border, 2):\n            line = []\n            if tty:\n")],
    "print_ascii writes one string per text line")
ben("b15_print_tty_bright_white", "C15", [
    (MAIN, "        out.write(\"\\x1b[1;47m\" + (\" \" * (modcount * 2 + 4)) + \"\\x1b[0m\\n\")\n        for r in range(modcount):",
     "        out.write(\"\\x1b[107m\" + (\" \" * (modcount * 2 + 4)) + \"\\x1b[0m\\n\")\n        for r in range(modcount):")],
    "top frame line of print_tty uses bright-white background without bold")
ben("b17_stdout_isatty_method", "C17", [
    (CLI, "os.isatty(sys.stdout.fileno())", "sys.stdout.isatty()")],
    "tty test through the stream object")
ben("b17_output_via_pathlib", "C17", [
    (CLI, "        with open(opts.output, \"wb\") as out:\n            img.save(out)\n",
     "        import io\n        import pathlib\n\n        buf = io.BytesIO()\n        img.save(buf)\n        pathlib.Path(opts.output).write_bytes(buf.getvalue())\n")],
    "--output written through pathlib")
ben("b17_stdin_readall_loop", "C17", [
    (CLI, "        data = sys.stdin.buffer.read()\n", "        chunks = []\n        while True:\n            chunk = sys.stdin.buffer.read(4096)\n            if not chunk:\n                break\n            chunks.append(chunk)\n        data = b\"\".join(chunks)\n")],
    "stdin read in a loop of bounded reads")
ben("b17_os_write_to_fd1", "C17", [
    (CLI, "        sys.stdout.flush()\n        img.save(sys.stdout.buffer)\n",
     "        import io\n\n        buf = io.BytesIO()\n        img.save(buf)\n        sys.stdout.flush()\n        view = memoryview(buf.getvalue())\n        while view:\n            n = os.write(sys.stdout.fileno(), view)\n            view = view[n:]\n")],
    "image written with os.write on the stdout file descriptor (by-passes sys.stdout.buffer)")
ben("b17_os_read_fd0", "C17", [
    (CLI, "        data = sys.stdin.buffer.read()\n", "        chunks = []\n        while True:\n            chunk = os.read(sys.stdin.fileno(), 65536)\n            if not chunk:\n                break\n            chunks.append(chunk)\n        data = b\"\".join(chunks)\n")],
    "stdin read with os.read on fd 0 (by-passes sys.stdin.buffer)")
ben("b19_lock_around_blank_cache", "C19,C11", [
    (MAIN, "precomputed_qr_blanks: Dict[int, ModulesType] = {}\n", "precomputed_qr_blanks: Dict[int, ModulesType] = {}\n_blanks_lock = __import__(\"threading\").Lock()\n"),
    (MAIN, "            precomputed_qr_blanks[self.version] = copy_2d_array(self.modules)\n", "            with _blanks_lock:\n                precomputed_qr_blanks[self.version] = copy_2d_array(self.modules)\n")],
    "a lock around the cache insert")
ben("b11_blank_cache_as_tuples", "C11,C19", [
    (MAIN, "            self.modules = copy_2d_array(precomputed_qr_blanks[self.version])\n", "            self.modules = [list(row) for row in precomputed_qr_blanks[self.version]]\n"),
    (MAIN, "            precomputed_qr_blanks[self.version] = copy_2d_array(self.modules)\n", "            precomputed_qr_blanks[self.version] = tuple(tuple(row) for row in self.modules)\n")],
    "cached blanks stored as immutable tuples")
ben("b18_box_size_validated_at_assignment", "C18,C11", [
    (MAIN, "    @property\n    def mask_pattern(self):\n        return self._mask_pattern\n",
     "    @property\n    def box_size(self):\n        return self._box_size\n\n    @box_size.setter\n    def box_size(self, value):\n        _check_box_size(value)\n        self._box_size = int(value)\n\n    @property\n    def mask_pattern(self):\n        return self._mask_pattern\n")],
    "box size validated as soon as it is assigned (the statement allows 'at the latest when an image is made')")
ben("b19_svg_units_local_cache", "C19", [
    (SVG, "        self.unit_size = self.units(self.box_size)\n", "        self.unit_size = self.units(self.box_size)\n        self._units_cache = {}\n")],
    "harmless per-instance attribute")


def _emit(table, outdir, only):
    os.makedirs(outdir, exist_ok=True)
    for name, prop, edits, why in table:
        if only and name not in only:
            continue
        with tempfile.TemporaryDirectory(prefix="verif_mk_") as td:
            subprocess.run(["git", "-C", "/repo", "worktree", "add", "--detach", "-q",
                            td + "/w", "HEAD"], check=True)
            try:
                for file, old, new in edits:
                    p = os.path.join(td, "w", file)
                    s = open(p).read()
                    if s.count(old) != 1:
                        print(f"!! {name}: pattern occurs {s.count(old)} times in {file}")
                        break
                    open(p, "w").write(s.replace(old, new))
                else:
                    d = subprocess.run(["git", "-C", td + "/w", "diff"], capture_output=True,
                                       text=True, check=True).stdout
                    with open(os.path.join(outdir, name + ".diff"), "w") as f:
                        f.write(f"property: {prop}\nwhy: {why}\n\n{d}")
                    print("ok", name)
            finally:
                subprocess.run(["git", "-C", "/repo", "worktree", "remove", "--force",
                                td + "/w"], check=True)


def main():
    only = set(sys.argv[1:])
    _emit(B, os.path.join(HERE, "benign"), only)
    if only and all(n.startswith("b") and not n.startswith("c") for n in only):
        return
    os.makedirs(OUT, exist_ok=True)
    for name, prop, edits, why in M:
        if only and name not in only:
            continue
        with tempfile.TemporaryDirectory(prefix="verif_mk_") as td:
            subprocess.run(["git", "-C", "/repo", "worktree", "add", "--detach", "-q",
                            td + "/w", "HEAD"], check=True)
            try:
                for file, old, new in edits:
                    p = os.path.join(td, "w", file)
                    s = open(p).read()
                    if s.count(old) != 1:
                        print(f"!! {name}: pattern occurs {s.count(old)} times in {file}")
                        break
                    open(p, "w").write(s.replace(old, new))
                else:
                    d = subprocess.run(["git", "-C", td + "/w", "diff"], capture_output=True,
                                       text=True, check=True).stdout
                    with open(os.path.join(OUT, name + ".diff"), "w") as f:
                        f.write(f"property: {prop}\nwhy: {why}\n\n{d}")
                    print("ok", name)
            finally:
                subprocess.run(["git", "-C", "/repo", "worktree", "remove", "--force",
                                td + "/w"], check=True)


if __name__ == "__main__":
    main()
