"""Command-line driver: ./check <property|selftest-determinism> [...]

Exit 0: property held on everything explored (or only listed known findings);
exit 1 + "VIOLATION property=<id> replay=<path>": an unlisted violation that
was minimised and reproduced from its replay file in a fresh interpreter;
exit 2: the harness itself failed (never reported as a pass or a violation).
"""

from __future__ import annotations

import argparse
import concurrent.futures as cf
import importlib
import json
import multiprocessing as mp
import os
import subprocess
import sys
import time

from . import core
from .core import Violation, EventLog, HarnessError

# property -> engine and budgets (seconds of wall clock per tier, cap on runs)
REGISTRY = {
    "C11": {"engine": "histsim", "quick": (50, 10 ** 7), "thorough": (420, 10 ** 8)},
    "C15": {"engine": "histsim", "quick": (40, 10 ** 7), "thorough": (300, 10 ** 8)},
    "C16": {"engine": "histsim", "quick": (40, 10 ** 7), "thorough": (300, 10 ** 8)},
    "C18": {"engine": "histsim", "quick": (40, 10 ** 7), "thorough": (300, 10 ** 8)},
    "C17": {"engine": "clisim", "quick": (50, 10 ** 7), "thorough": (420, 10 ** 8)},
    "C19": {"engine": "threadsim", "quick": (90, 10 ** 7), "thorough": (480, 10 ** 8)},
    "C20": {"engine": "relsim", "quick": (15, 10 ** 7), "thorough": (120, 10 ** 8)},
}
SELFCHECK_SEEDS = 8


def _engine(prop):
    return importlib.import_module("sim." + REGISTRY[prop]["engine"])


# --------------------------------------------------------------------------
# helpers that run in forked children (the parent never executes library code)
# --------------------------------------------------------------------------

def _digests_child(prop, tier, master, indices, opts):
    eng = _engine(prop)
    ctx = eng.worker_init(prop, tier, opts)
    try:
        return {i: eng.run_index(ctx, prop, tier, master, i, opts).digest for i in indices}
    finally:
        eng.worker_fini(ctx)


def _minimise_child(prop, tier, case, vjson, opts):
    eng = _engine(prop)
    ctx = eng.worker_init(prop, tier, opts)
    try:
        v = Violation.from_json(vjson)
        core.set_min_budget(float(os.environ.get("VERIF_MIN_BUDGET") or 75.0))
        small = eng.minimise(ctx, case, v)
        core.set_min_budget(None)
        res = eng.execute(ctx, small, EventLog(0))
        again = [x for x in res[0] if x.key() == v.key()]
        if not again:           # minimiser lost it: fall back to the original
            small = case
            res = eng.execute(ctx, small, EventLog(0))
            again = [x for x in res[0] if x.key() == v.key()]
        if again and hasattr(eng, "confirm"):
            # engines with by-passable seams re-judge the case against the real thing
            disagreement = eng.confirm(ctx, small, again[0])
            if disagreement:
                raise HarnessError(disagreement)
        return small, (again[0].to_json() if again else None)
    finally:
        eng.worker_fini(ctx)


def _replay_child(prop, tier, case, opts):
    eng = _engine(prop)
    ctx = eng.worker_init(prop, tier, opts)
    try:
        log = EventLog(0)
        res = eng.execute(ctx, case, log)
        return [v.to_json() for v in res[0]], log.lines
    finally:
        eng.worker_fini(ctx)


def _in_child(fn, *args, timeout=900):
    ctx = mp.get_context("fork")
    with cf.ProcessPoolExecutor(max_workers=1, mp_context=ctx) as pool:
        try:
            return pool.submit(fn, *args).result(timeout=timeout)
        except cf.process.BrokenProcessPool as e:
            raise HarnessError(f"child died in {fn.__name__}: {e}") from e
        except cf.TimeoutError as e:
            for p in list(getattr(pool, "_processes", {}).values()):
                p.kill()
            raise HarnessError(f"child timed out in {fn.__name__}") from e


# --------------------------------------------------------------------------
# modes
# --------------------------------------------------------------------------

def cmd_digests(args):
    """Print {index: digest} for the given indices (used by the determinism
    self-check from a fresh interpreter)."""
    indices = [int(x) for x in args.digests.split(",") if x]
    opts = _opts(args)
    d = _in_child(_digests_child, args.prop, args.tier, args.seed, indices, opts)
    print("DIGESTS " + json.dumps({str(k): v for k, v in d.items()}, sort_keys=True))
    return core.EXIT_OK


def fresh_digests(prop, tier, master, indices, hashseed, extra=()):
    env = dict(os.environ)
    env["VERIF_HASHSEED"] = str(hashseed)
    env["PYTHONHASHSEED"] = str(hashseed)
    env["VERIF_SEED"] = str(master)
    cmd = [sys.executable, os.path.join(core.VERIF_DIR, "check"), prop, "--tier", tier,
           "--digests", ",".join(map(str, indices))] + list(extra)
    p = subprocess.run(cmd, env=env, capture_output=True, text=True, timeout=900,
                       cwd=core.VERIF_DIR)
    for line in p.stdout.splitlines():
        if line.startswith("DIGESTS "):
            return {int(k): v for k, v in json.loads(line[8:]).items()}
    raise HarnessError(f"digest child failed rc={p.returncode}: {p.stdout[-2000:]} "
                       f"{p.stderr[-4000:]}")


def cmd_replay(args):
    with open(args.replay) as f:
        doc = json.load(f)
    prop = doc["property"]
    want = doc["violation"]
    vs, lines = _in_child(_replay_child, prop, args.tier, doc["case"], _opts(args))
    if args.verbose:
        for ln in lines:
            print("  log:", ln)
    same = [v for v in vs if v["property"] == want["property"] and v["class"] == want["class"]]
    for v in vs:
        print(f"replay: {v['property']} {v['class']} [{v['fingerprint']}] {v['message'][:400]}")
    if same:
        print(f"VIOLATION property={prop} replay={args.replay}")
        return core.EXIT_VIOLATION
    print(f"replay: recorded violation {want['class']} did NOT reproduce")
    return core.EXIT_OK


def _opts(args):
    return {"focus": args.prop}


def cmd_check(args):
    prop, tier, master = args.prop, args.tier, args.seed
    reg = REGISTRY[prop]
    eng = _engine(prop)
    budget, max_runs = reg[tier]
    if args.budget_s is not None:
        budget = args.budget_s
    if args.runs is not None:
        max_runs = args.runs
    nworkers = args.workers or min(16, os.cpu_count() or 1)
    opts = _opts(args)
    t0 = time.monotonic()
    if (args.budget_s is not None or args.runs is not None or args.no_selfcheck) \
            and not os.environ.get("VERIF_EVIDENCE_DIR"):
        # development / audit invocation: never overwrite the registered evidence file
        core.EVIDENCE_DIR = os.path.join(core.VERIF_DIR, "evidence", ".dev")

    merged = core.run_batch(reg["engine"], prop, tier, master, budget, max_runs,
                            nworkers, watchdog_s=getattr(eng, "WATCHDOG_S", 120),
                            opts=opts)
    if merged["runs"] == 0:
        raise HarnessError("no run completed within the budget")
    if len(merged["crashes"]) * 2 > merged["runs"]:
        raise HarnessError(f"{len(merged['crashes'])} of {merged['runs']} runs broke the "
                           f"simulator, first: run {merged['crashes'][0]}")

    # determinism self-check: the first few indices again, in a fresh interpreter
    # under a different hash seed; event-log digests must be identical
    sc_idx = [i for i in range(SELFCHECK_SEEDS) if i in merged["digests"]]
    selfcheck = {"seeds_rerun": 0, "equal": True, "hashseed_second_run": 1}
    fallback = sum(merged["stats"].count(k) for k in (
        "probe.seam_bypass_noticed", "probe.judged_with_real_process",
        "probe.judged_on_real_scratch_directory"))
    if fallback:
        # the code under test reaches its environment past a simulated seam and this
        # batch was (partly) judged on real processes / a real scratch directory: event
        # logs then depend on which worker noticed first and are not compared
        selfcheck = {"seeds_rerun": 0, "equal": True, "hashseed_second_run": 1,
                     "skipped": "fallback to real processes / real scratch directory active"}
    elif sc_idx and not args.no_selfcheck:
        again = fresh_digests(prop, tier, master, sc_idx, hashseed=1)
        bad = [i for i in sc_idx if again.get(i) != merged["digests"][i]]
        selfcheck = {"seeds_rerun": len(sc_idx), "equal": not bad,
                     "hashseed_second_run": 1}
        if bad:
            raise HarnessError(f"determinism self-check failed for run indices {bad}: "
                               "same seed, different event log")

    # violations of *this* property only (other properties have their own check)
    known = core.load_known_findings()
    mine, known_hits, seen_known = [], [], set()
    other = 0
    for out in merged["violating"]:
        for v in out.violations:
            if v.prop != prop:
                other += 1
                continue
            k = core.match_known(v, known)
            if k is not None:
                if (v.cls, v.fingerprint) not in seen_known:
                    seen_known.add((v.cls, v.fingerprint))
                    known_hits.append((k, v))
            else:
                mine.append((out, v))
    for k, v in known_hits:
        print(f"KNOWN-FINDING: property={prop} {k.get('what', v.msg)}")

    reported = []
    seen_cls = set()
    for out, v in mine:
        if v.key() in seen_cls or len(reported) >= int(os.environ.get("VERIF_MAX_REPORT") or 3):
            continue
        seen_cls.add(v.key())
        small, vj = _in_child(_minimise_child, prop, tier, out.case, v.to_json(), opts)
        if vj is None:
            raise HarnessError(f"violation {v} of run {out.index} did not reproduce "
                               "in a second process (nondeterministic harness?)")
        v2 = Violation.from_json(vj)
        if core.match_known(v2, known) is not None:
            print(f"KNOWN-FINDING: property={prop} {v2.msg[:300]}")
            continue
        path = core.write_replay(prop, out.seed, small, v2,
                                 extra={"run_index": out.index, "master_seed": master,
                                        "tier": tier, "original_case": out.case})
        # the replay file must reproduce it exactly in a fresh interpreter
        p = subprocess.run([sys.executable, os.path.join(core.VERIF_DIR, "check"), prop,
                            "--replay", path, "--tier", tier],
                           capture_output=True, text=True, timeout=900, cwd=core.VERIF_DIR)
        if p.returncode != core.EXIT_VIOLATION:
            raise HarnessError(f"replay file {path} did not reproduce in a fresh "
                               f"interpreter (rc={p.returncode}): {p.stdout[-1500:]}"
                               f"{p.stderr[-1500:]}")
        reported.append((path, v2, out))

    wall = time.monotonic() - t0
    cov = eng.coverage(merged, tier, prop) if _takes_prop(eng.coverage) else \
        eng.coverage(merged, tier)
    if hasattr(eng, "post_batch") and not args.no_selfcheck and not fallback:
        cov.update(eng.post_batch(tier, master, opts))
    if fallback:
        cov["seam_fallback"] = ("the code under test by-passes a simulated seam; "
                                f"{fallback} run(s) were judged on real processes / a real "
                                "scratch directory with the same oracle")
    cov["runs_per_hour"] = int(merged["runs"] / max(wall, 1e-9) * 3600)
    cov["seeds"] = {"master_seed": master, "first_run_index": merged["first"],
                    "last_run_index": merged["last"],
                    "derivation": "sha256('<master>/<property>/<index>')[:8]"}
    cov["steps_total"] = merged["steps"]
    cov["determinism_selfcheck"] = selfcheck
    cov["workers"] = nworkers
    cov["known_findings_hit"] = [f"{v.cls} [{v.fingerprint}]" for _, v in known_hits]
    cov["violations_of_other_properties_seen_not_reported_here"] = other
    cov["exhaustive"] = False
    assump = eng.assumptions(prop) if hasattr(eng, "assumptions") else \
        getattr(eng, "ASSUMPTIONS", [])
    core.write_evidence(prop, tier, master, cov, wall, len(reported), assump)
    for path, v2, out in reported:
        print(f"violation: {v2.cls} [{v2.fingerprint}] first at run index {out.index}: "
              f"{v2.msg[:600]}")
        print(f"VIOLATION property={prop} replay={path}")
    if merged["crashes"] and not reported:
        raise HarnessError(f"{len(merged['crashes'])} run(s) broke the simulator and no "
                           f"violation was pinned down; first: run {merged['crashes'][0]}")
    print(f"{prop} {tier}: runs={merged['runs']} steps={merged['steps']} "
          f"distinct_nontrivial={cov['distinct_nontrivial']} wall={wall:.1f}s "
          f"violations={len(reported)} known={len(known_hits)}")
    return core.EXIT_VIOLATION if reported else core.EXIT_OK


def _takes_prop(fn):
    import inspect
    return len(inspect.signature(fn).parameters) >= 3


def cmd_selftest(args):
    """Every engine: N seeds, each run in two fresh interpreters under different
    hash seeds and in this batch at 1 and 16 workers; digests must agree."""
    n = args.runs or 200
    rc = core.EXIT_OK
    props = [args.only] if args.only else ["C20", "C11", "C15", "C16", "C18", "C17", "C19"]
    for prop in props:
        idx = list(range(n))
        t0 = time.monotonic()
        chunks = [idx[i::16] for i in range(16)]
        with cf.ThreadPoolExecutor(max_workers=16) as tp:
            jobs = []
            for hs in (0, 1, 2):
                for ch in chunks:
                    if ch:
                        jobs.append((hs, tp.submit(fresh_digests, prop, args.tier, args.seed,
                                                   ch, hs)))
            by_hs = {0: {}, 1: {}, 2: {}}
            for hs, j in jobs:
                by_hs[hs].update(j.result())
        # and once more in a single process (worker count 1)
        single = fresh_digests(prop, args.tier, args.seed, idx[:max(8, n // 8)], 0)
        bad = [i for i in idx if not (by_hs[0][i] == by_hs[1][i] == by_hs[2][i])]
        bad += [i for i in single if single[i] != by_hs[0][i]]
        print(f"selftest-determinism {prop}: seeds={n} x3 hash seeds (+{len(single)} "
              f"single-process) mismatches={len(bad)} wall={time.monotonic() - t0:.1f}s")
        if bad:
            print(f"  MISMATCH at run indices {sorted(set(bad))[:20]}")
            rc = core.EXIT_HARNESS
    return rc


def main(argv=None):
    ap = argparse.ArgumentParser(prog="check")
    ap.add_argument("prop")
    ap.add_argument("--tier", default=os.environ.get("VERIF_TIER") or "quick",
                    choices=["quick", "thorough"])
    ap.add_argument("--replay")
    ap.add_argument("--runs", type=int)
    ap.add_argument("--budget-s", type=float)
    ap.add_argument("--workers", type=int)
    ap.add_argument("--digests")
    ap.add_argument("--only")
    ap.add_argument("--no-selfcheck", action="store_true")
    ap.add_argument("--verbose", "-v", action="store_true")
    args = ap.parse_args(argv)
    args.seed = int(os.environ.get("VERIF_SEED") or 0)
    core.ensure_env()
    os.chdir(core.VERIF_DIR)
    try:
        if args.prop == "selftest-determinism":
            return cmd_selftest(args)
        if args.replay:
            return cmd_replay(args)
        if args.prop not in REGISTRY:
            print(f"unknown property {args.prop}; claimed: {sorted(REGISTRY)}")
            return core.EXIT_HARNESS
        if args.digests is not None:
            return cmd_digests(args)
        return cmd_check(args)
    except HarnessError as e:
        print(f"HARNESS-ERROR: {e}")
        return core.EXIT_HARNESS
    except Exception:
        print("HARNESS-ERROR: " + core.format_exc())
        return core.EXIT_HARNESS
