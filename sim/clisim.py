"""clisim - C17: the `qr` command inside a simulated process environment.

A case is one invocation described explicitly::

    {"data": <hex>, "source": "arg"|"stdin", "chunks": [...], "argpos": "first"|"last",
     "dashdash": bool, "level": "L"|...|null|"X", "optimize": int|null,
     "factory": str|null, "drawer": str|null, "dest": "pipe"|"tty"|"output",
     "ascii": bool, "stdin_bufsize": int, "max_write": int|null}

The real ``qrcode.console_scripts.main(argv)`` runs in a forked child of a
pristine image with simulated argv, stdin (real BufferedReader over a raw pipe
end that delivers short reads), stdout (text layer + buffer over a raw pipe /
tty end), ``os.isatty`` answering from the simulated fd table and ``open()``
landing in an in-memory file system.  Whatever it emits is decoded by the
independent reader ``isoread`` and must give back exactly the input bytes.
"""

from __future__ import annotations

import io
import os
import random
import re
import sys
import xml.etree.ElementTree as PET   # the *parser* is stdlib; nothing of qrcode

from . import core, isoread, readback
from .core import Violation, Stats, EventLog
from .env import SimFS, SimStdin, SimStdout, FdTable
from .forkserver import ForkServer

PROP = "C17"
WATCHDOG_S = 900
OUT_PATH = "/simfs/out/qr.img"
SVG_NS = "http://www.w3.org/2000/svg"

# factory name -> (kind, has drawer aliases, background rect?)
FACTORIES = {
    None: ("png", False, False),
    "pil": ("png", False, False),
    "png": ("png", False, False),
    "pymaging": ("png", False, False),
    "qrcode.image.pil.PilImage": ("png", False, False),
    "qrcode.image.pure.PyPNGImage": ("png", False, False),
    "qrcode.image.styledpil.StyledPilImage": ("png-styled", False, False),
    "svg": ("svg-rect", True, False),
    "svg-fragment": ("svg-frag", False, False),
    "svg-path": ("svg-path", True, False),
    "qrcode.image.svg.SvgImage": ("svg-rect", True, False),
    "qrcode.image.svg.SvgFillImage": ("svg-rect", True, True),
    "qrcode.image.svg.SvgPathImage": ("svg-path", True, False),
    "qrcode.image.svg.SvgPathFillImage": ("svg-path", True, True),
    "qrcode.image.svg.SvgFragmentImage": ("svg-frag", False, False),
}
UNKNOWN_FACTORIES = ["nope", "svgx", "PNG", "qrcode.image.nope.Nope", "qrcode.image.svg.Nope",
                     "qrcode.image.pil.pilimage", "svg.path"]
DRAWERS = ["circle", "gapped-circle", "gapped-square"]
UNKNOWN_DRAWERS = ["nope", "square", "Circle", "gapped", "circle "]
LEVELS = ["L", "M", "Q", "H"]
UNKNOWN_LEVELS = ["X", "l", "LM", "", "7"]
BOX, BORDER = 10, 4


# --------------------------------------------------------------------------
# artefact -> matrix
# --------------------------------------------------------------------------

class BadArtefact(Exception):
    pass


def png_to_matrix(data, exact=True):
    from PIL import Image
    if data[:8] != b"\x89PNG\r\n\x1a\n":
        raise BadArtefact("no PNG signature")
    try:
        img = Image.open(io.BytesIO(data))
        img.load()
    except Exception as e:  # noqa
        raise BadArtefact(f"Pillow cannot decode the PNG: {e!r}")
    w, h = img.size
    if w != h or w % BOX:
        raise BadArtefact(f"image is {w}x{h}")
    side = w // BOX
    n = side - 2 * BORDER
    if n < 21 or (n - 17) % 4:
        raise BadArtefact(f"{side} cells per side is not 17+4v+2*{BORDER}")
    if img.mode == "RGBA":
        bg = Image.new("RGBA", img.size, (255, 255, 255, 255))
        bg.alpha_composite(img)
        img = bg
    g = img.convert("L")
    px = g.tobytes()
    cells = []
    for r in range(side):
        row = []
        for c in range(side):
            if exact:
                vals = set()
                for dy in range(BOX):
                    off = (r * BOX + dy) * w + c * BOX
                    vals.update(px[off:off + BOX])
                if len(vals) != 1:
                    raise BadArtefact(f"cell ({r},{c}) is not uniformly coloured")
                v = vals.pop()
            else:
                v = px[(r * BOX + BOX // 2) * w + c * BOX + BOX // 2]
            if 64 < v < 192:
                raise BadArtefact(f"cell ({r},{c}) has ambiguous grey {v}")
            row.append(v < 128)
        cells.append(row)
    return _strip_quiet_zone(cells, n)


def _strip_quiet_zone(cells, n):
    side = len(cells)
    for r in range(side):
        for c in range(side):
            inner = BORDER <= r < BORDER + n and BORDER <= c < BORDER + n
            if not inner and cells[r][c]:
                raise BadArtefact(f"dark cell ({r},{c}) in the quiet zone")
    return [row[BORDER:BORDER + n] for row in cells[BORDER:BORDER + n]]


def _mm(s):
    m = re.fullmatch(r"(-?[0-9]+(?:\.[0-9]+)?)mm", s or "")
    if not m:
        raise BadArtefact(f"length {s!r} is not in mm")
    return float(m.group(1))


def _cell_index(x):
    k = round(x)
    if abs(x - k) > 1e-6:
        raise BadArtefact(f"coordinate {x} is not on the module grid")
    return k


def _is_eye(r, c, n):
    return (r < 7 and c < 7) or (r < 7 and n - c < 8) or (n - r < 8 and c < 7)


def svg_to_matrix(data, kind, drawer, background):
    """kind: svg-rect | svg-frag | svg-path.  Checks well-formedness, the root
    element and size, the shape kind per cell (requested drawer outside the
    eyes; default or requested drawer inside them), one shape per cell."""
    try:
        text = data.decode("utf-8")
        root = PET.fromstring(data)
    except Exception as e:  # noqa
        raise BadArtefact(f"not well-formed XML: {e!r}")
    if root.tag != "{%s}svg" % SVG_NS:
        raise BadArtefact(f"root element is {root.tag!r}")
    if kind == "svg-frag":
        if text.lstrip().startswith("<?xml"):
            raise BadArtefact("fragment carries an XML declaration")
    else:
        if not text.startswith("<?xml"):
            raise BadArtefact("standalone SVG lacks the XML declaration")
    wmm, hmm = _mm(root.get("width")), _mm(root.get("height"))
    if wmm != hmm:
        raise BadArtefact("not square")
    side = _cell_index(wmm)      # box 10 = 1 mm per module
    n = side - 2 * BORDER
    if n < 21 or (n - 17) % 4:
        raise BadArtefact(f"{side} mm per side is not 17+4v+2*{BORDER}")
    ratio = 0.8 if drawer in ("gapped-circle", "gapped-square") else 1.0
    want_shape = "circle" if drawer in ("circle", "gapped-circle") else "square"
    cells = [[False] * side for _ in range(side)]
    shapes_seen = set()

    def mark(cx, cy, size, shape):
        c, r = _cell_index(cx - 0.5), _cell_index(cy - 0.5)
        if not (0 <= r < side and 0 <= c < side):
            raise BadArtefact(f"shape centred at ({cx},{cy}) outside the image")
        if cells[r][c]:
            raise BadArtefact(f"two shapes in cell ({r},{c})")
        eye = _is_eye(r - BORDER, c - BORDER, n)
        ok = (shape == want_shape and abs(size - ratio) < 1e-6) or \
             (eye and shape == "square" and abs(size - 1.0) < 1e-6)
        if not ok:
            raise BadArtefact(f"cell ({r},{c}): {shape} of size {size}, expected "
                              f"{want_shape} of size {ratio}")
        cells[r][c] = True
        shapes_seen.add(shape)

    children = list(root)
    if background:
        if not children or children[0].tag not in ("rect", "{%s}rect" % SVG_NS) or \
                children[0].get("width") != "100%" or children[0].get("height") != "100%":
            raise BadArtefact("fill variant lacks the full-size background rectangle")
        children = children[1:]
    if kind == "svg-path":
        if len(children) != 1 or children[0].tag not in ("path", "{%s}path" % SVG_NS):
            raise BadArtefact(f"expected exactly one <path>, found "
                              f"{[ch.tag for ch in children][:4]}")
        vb = root.get("viewBox")
        if vb is None or [float(t) for t in vb.split()] != [0.0, 0.0, float(side), float(side)]:
            raise BadArtefact(f"viewBox {vb!r}")
        d = children[0].get("d") or ""
        num = r"(-?[0-9]+(?:\.[0-9]+)?(?:E[-+]?[0-9]+)?)"
        sq = re.compile(rf"M{num},{num}H{num}V{num}H{num}z")
        arc = re.compile(rf"M{num},{num}A{num},{num} 0 0 0 {num},{num}A{num},{num} 0 0 0 "
                         rf"{num},{num}z")
        pos = 0
        while pos < len(d):
            m1 = sq.match(d, pos)
            m2 = arc.match(d, pos)
            if m1:
                x0, y0, x1, y1, x0b = map(float, m1.groups())
                if abs(x0 - x0b) > 1e-9 or abs((x1 - x0) - (y1 - y0)) > 1e-6:
                    raise BadArtefact("malformed square subpath")
                mark((x0 + x1) / 2, (y0 + y1) / 2, x1 - x0, "square")
                pos = m1.end()
            elif m2:
                g = list(map(float, m2.groups()))
                x0, yh, x1, yh2, x0b, yh3 = g[0], g[1], g[4], g[5], g[8], g[9]
                if abs(yh - yh2) > 1e-9 or abs(yh - yh3) > 1e-9 or abs(x0 - x0b) > 1e-9:
                    raise BadArtefact("malformed circle subpath")
                mark((x0 + x1) / 2, yh, x1 - x0, "circle")
                pos = m2.end()
            else:
                raise BadArtefact(f"unparsable path data at offset {pos}: {d[pos:pos + 40]!r}")
    else:
        for ch in children:
            tag = ch.tag
            if tag.startswith("{"):
                if not tag.startswith("{%s}" % SVG_NS):
                    raise BadArtefact(f"element in foreign namespace: {tag}")
                tag = tag.split("}", 1)[1]
            if tag == "rect":
                x, y = _mm(ch.get("x")), _mm(ch.get("y"))
                w, h = _mm(ch.get("width")), _mm(ch.get("height"))
                if abs(w - h) > 1e-9:
                    raise BadArtefact("non-square rect")
                mark(x + w / 2, y + h / 2, w, "square")
            elif tag == "circle":
                cx, cy, rad = _mm(ch.get("cx")), _mm(ch.get("cy")), _mm(ch.get("r"))
                mark(cx, cy, 2 * rad, "circle")
            else:
                raise BadArtefact(f"unexpected element <{tag}>")
    if drawer is not None and want_shape == "circle" and "circle" not in shapes_seen:
        raise BadArtefact("requested circle drawer but no circle was drawn")
    return _strip_quiet_zone(cells, n)


def ascii_to_matrix(text, variant):
    lines = text.split("\n")
    if not text.endswith("\n"):
        raise BadArtefact("ASCII art does not end with a newline")
    width = len(readback.SGR.sub("", lines[0]))
    side = width
    n = side - 2 * BORDER
    if n < 21 or (n - 17) % 4:
        raise BadArtefact(f"ASCII art is {side} cells wide")
    try:
        cells = readback.matrix_from_half_blocks(text, variant, side)
    except readback.Unreadable as e:
        raise BadArtefact(f"ASCII art unreadable: {e}")
    return _strip_quiet_zone(cells, n)


# --------------------------------------------------------------------------
# segment structure implied by --optimize (C17 says "at the requested
# optimisation threshold"; the rule itself is the one stated for add_data)
# --------------------------------------------------------------------------

ALNUM_SET = set(b"0123456789ABCDEFGHIJKLMNOPQRSTUVWXYZ $%*+-./:")


def check_threshold(data, segments, threshold):
    """-> None or a complaint string."""
    if threshold == 0:
        if len(segments) != 1:
            return f"--optimize 0 produced {len(segments)} segments, expected exactly 1"
        return None
    n = threshold
    modes = []
    for mode, b in segments:
        modes.extend([mode] * len(b))
    if len(modes) != len(data):
        return "segment lengths do not add up to the data length"
    if len(data) <= n:
        return None
    for mode, b in segments:
        if mode in ("numeric", "alnum") and len(b) < n:
            return f"{mode} segment of length {len(b)} below the threshold {n}"
    # every run of >= n digits is numeric
    i = 0
    in_digit_run = [False] * len(data)
    while i < len(data):
        if 48 <= data[i] <= 57:
            j = i
            while j < len(data) and 48 <= data[j] <= 57:
                j += 1
            if j - i >= n:
                for k in range(i, j):
                    in_digit_run[k] = True
                    if modes[k] != "numeric":
                        return f"digit run [{i}:{j}) of length {j - i} >= {n} not numeric"
            i = j
        else:
            i += 1
    # every run of >= n alphanumerics outside those digit runs is alnum
    i = 0
    while i < len(data):
        if data[i] in ALNUM_SET and not in_digit_run[i]:
            j = i
            while j < len(data) and data[j] in ALNUM_SET and not in_digit_run[j]:
                j += 1
            if j - i >= n:
                for k in range(i, j):
                    if modes[k] != "alnum":
                        return (f"alphanumeric run [{i}:{j}) of length {j - i} >= {n} "
                                f"not in alphanumeric mode")
            i = j
        else:
            i += 1
    return None


# --------------------------------------------------------------------------
# one simulated process
# --------------------------------------------------------------------------

def build_argv(case, dest):
    opts = []
    eq = case.get("eq", False)

    def add(name, val):
        if eq:
            opts.append(f"{name}={val}")
        else:
            opts.extend([name, val])

    if case.get("factory") is not None:
        add("--factory", case["factory"])
    if case.get("drawer") is not None:
        add("--factory-drawer", case["drawer"])
    if case.get("optimize") is not None:
        add("--optimize", str(case["optimize"]))
    if case.get("level") is not None:
        add("--error-correction", case["level"])
    if case.get("ascii"):
        opts.append("--ascii")
    if dest == "output":
        add("--output", OUT_PATH)
    argv = list(opts)
    if case["source"] == "arg":
        data = bytes.fromhex(case["data"]).decode("utf-8", "surrogateescape")
        if case.get("dashdash") or data.startswith("-"):
            argv = opts + ["--", data]
        elif case.get("argpos") == "first":
            argv = [data] + opts
        else:
            argv = opts + [data]
    return argv


def simulate_process(case, dest):
    """Run main(argv) once.  -> dict(status, stdout, stderr, file, wrote_files,
    stdin stats, exception)"""
    import qrcode.console_scripts as cs
    data = bytes.fromhex(case["data"])
    argv = build_argv(case, dest)
    stdin_tty = bool(case.get("stdin_tty"))
    stdin = SimStdin(data if case["source"] == "stdin" else b"",
                     case.get("chunks") or [1 << 30],
                     buffer_size=case.get("stdin_bufsize", 8192), tty=stdin_tty)
    tty = dest == "tty" or (dest == "output" and case.get("output_stdout_tty", False))
    stdout = SimStdout(tty=tty, fd=1, max_write=case.get("max_write"))
    stderr = io.StringIO()
    fds = FdTable({0: stdin_tty, 1: tty, 2: False})
    fs = SimFS(lambda p: os.path.abspath(p).startswith("/simfs/"))
    if case.get("preexisting"):
        # --output names a file that already exists and is longer than any image
        fs.files[OUT_PATH] = b"OLD CONTENT " * case["preexisting"]
    initial_file = fs.files.get(OUT_PATH)
    saved = sys.stdin, sys.stdout, sys.stderr, sys.argv
    status, exc = 0, None
    fs.install()
    fds.install()
    sys.stdin, sys.stdout, sys.stderr = stdin, stdout, stderr
    sys.argv = ["qr"] + argv
    try:
        try:
            cs.main(argv if case.get("pass_args", True) else None)
        except SystemExit as e:
            c = e.code
            status = 0 if c is None else c if isinstance(c, int) else 1
        except BaseException as e:  # noqa  (what the interpreter would turn into status 1)
            status, exc = 1, f"{type(e).__name__}: {e}"
        try:
            stdout.flush()      # interpreter shutdown flushes sys.stdout
        except Exception as e:  # noqa
            status = status or 120
    finally:
        sys.stdin, sys.stdout, sys.stderr, sys.argv = saved
        FdTable.uninstall()
        SimFS.uninstall()
        stdin.detach_text()
    fbytes = fs.files.get(OUT_PATH)
    if fbytes == initial_file and not any(
            e[0] == "open" and any(ch in e[2] for ch in "wax+") for e in fs.log):
        fbytes = None          # the path was not touched (absent, or an untouched old file)
    return {"status": status, "exc": exc, "stdout": stdout.value(),
            "stderr": stderr.getvalue(), "file": fbytes,
            "opens": [e for e in fs.log if e[0] == "open"],
            "stdin_consumed": stdin.raw.off, "stdin_eof": stdin.raw.eof_seen,
            "short_reads": stdin.raw.short_reads, "text_reads": stdin.text_reads,
            "short_writes": stdout.raw.short_writes, "argv": argv,
            "isatty_queries": list(fds.queries)}


def expected_failure(case):
    """None when the options are all known; else which option is unknown."""
    if case.get("level") is not None and case["level"] not in LEVELS:
        return "level"
    f = case.get("factory")
    if f not in FACTORIES:
        return "factory"
    if case.get("drawer") is not None:
        kind, has_aliases, _ = FACTORIES[f]
        if not has_aliases or case["drawer"] not in DRAWERS:
            return "drawer"
    return None


CAPACITY_BYTES = {"L": 2953, "M": 2331, "Q": 1663, "H": 1273}


def run_case(case, ref=None, executor=None):
    executor = executor or simulate_process
    log = EventLog(case.get("seed", 0))
    stats = Stats()
    violations = []
    data = bytes.fromhex(case["data"])
    level = case.get("level") or "M"
    f = case.get("factory")
    dest = case["dest"]

    def viol(cls, msg, fp):
        if not any(v.cls == cls for v in violations):
            violations.append(Violation(PROP, cls, msg, fp))

    fail = expected_failure(case)
    shape = (f"src={case['source']}|dest={dest}|factory="
             f"{FACTORIES.get(f, ('unknown',))[0]}|drawer="
             f"{'none' if case.get('drawer') is None else 'known' if case['drawer'] in DRAWERS else 'unknown'}"
             f"|ascii={bool(case.get('ascii'))}")
    res = executor(case, dest)
    stats.inc("processes")
    stats.inc("dest." + dest)
    stats.inc("source." + case["source"])
    stats.inc("fault.stdin_short_reads", res["short_reads"])
    stats.inc("fault.stdout_short_writes", res["short_writes"])
    if dest == "tty":
        stats.inc("fault.stdout_is_tty")
    if case.get("stdin_tty"):
        stats.inc("fault.stdin_is_tty")
    log.ev("argv", res["argv"], "status", res["status"], res["exc"],
           "stdout", core.short_hash(res["stdout"]), "file",
           core.short_hash(res["file"] or b""), "consumed", res["stdin_consumed"])
    wrote_files = [e for e in res["opens"] if any(ch in e[2] for ch in "wax+")]

    # ---- unknown factory / drawer / level: fail, write no image ------------
    if fail is not None:
        stats.inc("fault.unknown_" + fail)
        stats.add("tuples", (shape, "unknown-" + fail))
        fp = f"unknown-{fail}|dest={dest}|factory={FACTORIES.get(f, ('unknown',))[0]}"
        if res["status"] == 0:
            viol("C17/unknown-option-exit-status-0",
                 f"argv {res['argv']}: unknown {fail} but exit status 0", fp)
        if res["stdout"] or res["file"] is not None or wrote_files:
            viol("C17/unknown-option-wrote-image",
                 f"argv {res['argv']}: unknown {fail} yet {len(res['stdout'])} bytes on "
                 f"stdout, file={'yes' if res['file'] is not None else 'no'}", fp)
        return _done(case, log, stats, violations, 1)

    # ---- which artefact is due -----------------------------------------------
    kind, has_aliases, background = FACTORIES[f]
    ascii_due = dest != "output" and f is None and (dest == "tty" or case.get("ascii"))
    ascii_ok = ascii_due or (case.get("ascii") and dest != "output")   # --ascii with --factory:
    image_ok = not ascii_due                                            # either is accepted
    over = _over_capacity(data, level, case.get("optimize"))
    fp = shape

    if res["status"] != 0:
        if over is True:
            stats.inc("fault.over_capacity_input")
            stats.add("tuples", (shape, "over-capacity"))
            if res["stdout"] or res["file"] is not None or wrote_files:
                viol("C17/over-capacity-wrote-image", f"argv {res['argv'][:6]}", fp)
            return _done(case, log, stats, violations, 1)
        if over is None and res["exc"] and ("DataOverflowError" in res["exc"] or
                                            "Invalid version (was 41" in res["exc"]):
            stats.inc("probe.near_capacity_overflow_accepted")
            return _done(case, log, stats, violations, 1)
        viol("C17/command-failed",
             f"argv {_short_argv(res['argv'])} ({len(data)} data bytes via {case['source']}): "
             f"exit status {res['status']}, {res['exc'] or res['stderr'][-200:]!r}",
             fp + "|" + (res["exc"] or "exit").split(":")[0])
        return _done(case, log, stats, violations, 1)
    if over is True:
        viol("C17/over-capacity-input-accepted",
             f"{len(data)} bytes at level {level} cannot fit any symbol, yet exit status 0", fp)
        return _done(case, log, stats, violations, 1)

    out = res["file"] if dest == "output" else res["stdout"]
    if dest == "output":
        if res["file"] is None:
            viol("C17/output-file-not-written", f"argv {_short_argv(res['argv'])}", fp)
            return _done(case, log, stats, violations, 1)
        if res["stdout"]:
            viol("C17/output-also-wrote-stdout",
                 f"{len(res['stdout'])} bytes on stdout although --output was given", fp)
    if case["source"] == "stdin" and res["text_reads"]:
        stats.inc("probe.stdin_read_in_text_mode")

    # ---- artefact -> matrix ---------------------------------------------------
    matrix = None
    got_kind = None
    errors = []
    if image_ok:
        try:
            if kind == "png":
                matrix = png_to_matrix(out, exact=True)
            elif kind == "png-styled":
                matrix = png_to_matrix(out, exact=False)
            else:
                matrix = svg_to_matrix(out, kind, case.get("drawer"), background)
            got_kind = kind
        except BadArtefact as e:
            errors.append(f"as {kind}: {e}")
    if matrix is None and ascii_ok:
        try:
            text = out.decode("utf-8")
            variant = "plain" if case.get("ascii") else "tty"
            matrix = ascii_to_matrix(text, variant)
            got_kind = "ascii-" + variant
        except (BadArtefact, UnicodeDecodeError) as e:
            errors.append(f"as ASCII art: {e}")
    if matrix is None:
        viol("C17/output-not-well-formed",
             f"argv {_short_argv(res['argv'])}: {len(out)} bytes, {'; '.join(errors)}", fp)
        return _done(case, log, stats, violations, 1)
    stats.inc("artefact." + got_kind)

    # ---- decode ---------------------------------------------------------------------
    try:
        dec = isoread.decode(matrix)
    except isoread.ReadError as e:
        viol("C17/output-does-not-decode", f"argv {_short_argv(res['argv'])}: {e}", fp)
        return _done(case, log, stats, violations, 1)
    stats.add("versions", dec["version"])
    if dec["payload"] != data:
        viol("C17/decoded-bytes-differ-from-input",
             f"argv {_short_argv(res['argv'])} via {case['source']} chunks "
             f"{case.get('chunks')}: decoded {dec['payload'][:40]!r}... ({len(dec['payload'])} "
             f"bytes), input {data[:40]!r}... ({len(data)} bytes)", fp)
    if dec["level"] != level:
        viol("C17/wrong-error-correction-level",
             f"requested {case.get('level')!r} (-> {level}), symbol says {dec['level']}",
             fp + f"|level={level}")
    thr = 20 if case.get("optimize") is None else case["optimize"]
    complaint = check_threshold(data, dec["segments"], thr)
    if complaint and dec["payload"] == data:
        viol("C17/optimize-threshold-not-honoured",
             f"--optimize {case.get('optimize')}: {complaint}; segments "
             f"{[(m, len(b)) for m, b in dec['segments']][:8]}", fp + f"|opt={thr}")
    if case["source"] == "stdin" and res["stdin_consumed"] != len(data):
        viol("C17/stdin-not-read-to-eof",
             f"{res['stdin_consumed']} of {len(data)} stdin bytes consumed", fp)
    stats.add("tuples", (shape, level, "opt0" if thr == 0 else "opt+", "ok"))
    stats.inc("probe.segments_%s" % ("1" if len(dec["segments"]) <= 1 else "many"))

    # ---- --output must equal stdout for the same options ------------------------------
    nproc = 1
    other = "pipe" if dest == "output" else "output"
    other_is_ascii = other != "output" and f is None and case.get("ascii")
    if not violations and image_ok and got_kind == kind and not other_is_ascii \
            and case.get("pair", True):
        res2 = executor(case, other)
        nproc = 2
        stats.inc("processes")
        stats.inc("probe.output_vs_stdout_pairs")
        out2 = res2["file"] if other == "output" else res2["stdout"]
        log.ev("pair", other, res2["status"], core.short_hash(out2 or b""))
        if res2["status"] != 0 or out2 is None:
            viol("C17/command-failed",
                 f"same options with destination {other}: status {res2['status']} "
                 f"{res2['exc']}", fp + "|pair")
        elif dest != "tty" and out2 != out:
            viol("C17/output-file-differs-from-stdout",
                 f"argv {_short_argv(res['argv'])}: --output image "
                 f"({len(out2 if other == 'output' else out)} bytes) differs from the "
                 f"stdout image ({len(out if other == 'output' else out2)} bytes)", fp)
        elif dest == "tty" and f is not None and out2 != out:
            viol("C17/output-file-differs-from-stdout",
                 f"argv {_short_argv(res['argv'])} (stdout a tty)", fp)
    return _done(case, log, stats, violations, nproc)


def _short_argv(argv):
    return [a if len(a) <= 40 else a[:37] + "..." for a in argv]


CAP_BITS_V40 = {"L": 2956 * 8, "M": 2334 * 8, "Q": 1666 * 8, "H": 1276 * 8}


def model_segments(data, threshold):
    """The segmentation rule stated for add_data, as a model: [(mode, length)].
    Used only to tell whether an input can fit version 40 at all."""
    def is_digit(b):
        return 48 <= b <= 57

    def runs(buf, pred, n):
        out, i = [], 0
        start_other = 0
        while i < len(buf):
            if pred(buf[i]):
                j = i
                while j < len(buf) and pred(buf[j]):
                    j += 1
                if j - i >= n:
                    if i > start_other:
                        out.append((False, buf[start_other:i]))
                    out.append((True, buf[i:j]))
                    start_other = j
                i = j
            else:
                i += 1
        if start_other < len(buf):
            out.append((False, buf[start_other:]))
        return out

    def best(buf):
        if buf and all(is_digit(b) for b in buf):
            return "numeric"
        if all(b in ALNUM_SET for b in buf):
            return "alnum"
        return "byte"

    if threshold == 0 or len(data) <= threshold:
        if threshold and not data:
            return []
        return [(best(data), len(data))]
    segs = []
    for is_num, chunk in runs(data, is_digit, threshold):
        if is_num:
            segs.append(("numeric", len(chunk)))
        else:
            for is_al, sub in runs(chunk, lambda b: b in ALNUM_SET, threshold):
                segs.append(("alnum" if is_al else "byte", len(sub)))
    return segs


def model_bits_v40(data, threshold):
    bits = 0
    for mode, n in model_segments(data, threshold):
        if mode == "numeric":
            bits += 4 + 14 + 10 * (n // 3) + (0, 4, 7)[n % 3]
        elif mode == "alnum":
            bits += 4 + 13 + 11 * (n // 2) + 6 * (n % 2)
        else:
            bits += 4 + 16 + 8 * n
    return bits


def _over_capacity(data, level, optimize):
    """True: cannot fit version 40 at this level; False: fits; None: within 64
    bits of the boundary (either outcome accepted if the failure is an overflow)."""
    thr = 20 if optimize is None else optimize
    bits = model_bits_v40(data, thr)
    cap = CAP_BITS_V40[level]
    if bits > cap + 64:
        return True
    if bits <= cap - 64:
        return False
    return None


def _done(case, log, stats, violations, nproc):
    return {"violations": [v.to_json() for v in violations], "stats": stats,
            "log": log.lines, "steps": nproc}


# --------------------------------------------------------------------------
# generation
# --------------------------------------------------------------------------

def gen_data(rng, tier, source):
    r = rng.random()
    if r < (0.006 if tier == "quick" else 0.03):
        # rare and expensive: inputs beyond the byte-mode capacity of the largest
        # symbol that still fit because they are numeric / alphanumeric
        if rng.random() < 0.6:
            n = rng.choice([2954, 2955, 3000, 3500, 4297, 5000, 7000, 7089])
            return bytes(rng.choice(b"0123456789") for _ in range(n))
        n = rng.choice([2954, 3000, 3500, 4296])
        return bytes(rng.choice(b"ABCDEFGHIJKLMNOPQRSTUVWXYZ $%*+-./:") for _ in range(n))
    if r < 0.05:
        d = b""
    elif r < 0.35:
        d = rng.choice([b"testtext", b"HELLO WORLD", b"0123456789" * 3, b"http://example.com/a?b=c",
                        "αβγ".encode(), b"a", b"A", b"1", b"-dash", b"--", b"- x", b"a b",
                        b"12345678901234567890123ABCDEFGHIJKLMNOPQRSTUVWXYZ",
                        b"x" * 25 + b"1" * 25 + b"ABC DEF GHI JKL MNO PQR STU",
                        b"A" * 19 + b"a" + b"A" * 21 + b"9" * 20 + b"." + b"9" * 19])
    elif r < 0.6:
        n = rng.choice([1, 2, 3, 5, 8, 13, 21, 40, 80, 150])
        alphabet = rng.choice([bytes(range(1, 256)), b"0123456789", b"ABCDEFGHIJ $%*+-./:0123",
                               b"abc\n\r\t ", bytes(range(128, 256)), b"\x01\x7f\x80\xff"])
        d = bytes(rng.choice(alphabet) for _ in range(n))
    elif r < 0.75:
        # NUL runs (only stdin can carry them)
        n = rng.choice([1, 3, 8, 16, 24, 32, 40, 64])
        d = b"\x00" * n
        if rng.random() < 0.5:
            d = bytes(rng.randrange(256) for _ in range(rng.randint(0, 20))) + d
        if rng.random() < 0.3:
            d += b"tail"
    elif r < 0.9:
        # whitespace / newline edges
        core_ = rng.choice([b"line", b"a b", b"12345", b"\xff\xfe"])
        d = rng.choice([b"", b"\n", b" ", b"\r\n", b"\t"]) + core_ + \
            rng.choice([b"\n", b"\r\n", b"\n\n", b" ", b"\x00", b"\nsecond line\n", b"\x1a", b""])
    else:
        n = rng.choice([120, 200, 300, 500] if tier == "quick" else
                       [200, 500, 1000, 1272, 1273, 1274, 1663, 1664, 2331, 2332, 2953, 2954,
                        3000, 7089, 7090, 8000])
        alphabet = rng.choice([b"0123456789", bytes(range(1, 256)), b"ABCDEF 123"])
        d = bytes(rng.choice(alphabet) for _ in range(n))
    if source == "arg":
        d = d.replace(b"\x00", b"\x01")     # argv cannot carry NUL
    return d


def generate(rng, tier, opts=None):
    source = rng.choice(["arg", "stdin", "stdin"])
    data = gen_data(rng, tier, source)
    case = {"data": data.hex(), "source": source}
    if source == "stdin":
        r = rng.random()
        if r < 0.3:
            case["chunks"] = [1 << 30]
        elif r < 0.6:
            case["chunks"] = [rng.choice([1, 2, 3, 7])]
        else:
            case["chunks"] = [rng.choice([1, 2, 5, 16, 100, 4096]) for _ in range(rng.randint(2, 5))]
        case["stdin_bufsize"] = rng.choice([8192, 8192, 16, 1, 4096])
        if rng.random() < 0.2:
            # data typed at a terminal: stdin is a tty and delivers line by line
            case["stdin_tty"] = True
            sizes, run = [], 0
            for b in data:
                run += 1
                if b == 10:
                    sizes.append(run)
                    run = 0
            if run:
                sizes.append(run)
            case["chunks"] = sizes[:64] or [1 << 30]
    else:
        case["argpos"] = rng.choice(["first", "last"])
        case["dashdash"] = rng.random() < 0.2
        case["pass_args"] = rng.random() < 0.8
    case["eq"] = rng.random() < 0.4
    r = rng.random()
    case["level"] = None if r < 0.3 else rng.choice(LEVELS) if r < 0.93 else \
        rng.choice(UNKNOWN_LEVELS)
    if len(data) > 2900 and rng.random() < 0.7:
        case["level"] = "L"
    r = rng.random()
    case["optimize"] = None if r < 0.4 else rng.choice([0, 0, 1, 2, 4, 5, 10, 20, 25, 1000])
    r = rng.random()
    if r < 0.22:
        case["factory"] = None
    elif r < 0.9:
        case["factory"] = rng.choice([k for k in FACTORIES if k is not None
                                      and (k != "qrcode.image.styledpil.StyledPilImage"
                                           or rng.random() < 0.3)])
    else:
        case["factory"] = rng.choice(UNKNOWN_FACTORIES)
    if len(data) > 600 and case["factory"] in FACTORIES and \
            FACTORIES[case["factory"]][0] != "png":
        # large symbols only with the cheap raster factories: an SVG of a version-40
        # symbol costs tens of seconds and would make run times depend on machine load
        case["factory"] = rng.choice([None, "pil", "png", "pymaging"])
    r = rng.random()
    has_aliases = FACTORIES.get(case["factory"], (None, False))[1]
    if r < (0.5 if has_aliases else 0.12):
        case["drawer"] = rng.choice(DRAWERS)
    elif r < (0.62 if has_aliases else 0.17):
        case["drawer"] = rng.choice(UNKNOWN_DRAWERS)
    else:
        case["drawer"] = None
    case["dest"] = rng.choice(["pipe", "pipe", "tty", "output", "output"])
    if case["dest"] == "output":
        case["output_stdout_tty"] = rng.random() < 0.5
    if rng.random() < 0.25:
        case["preexisting"] = rng.choice([1, 50, 5000])
    case["ascii"] = rng.random() < 0.15
    if rng.random() < 0.1:
        case["max_write"] = rng.choice([1, 7, 100, 4096])
    return case


# --------------------------------------------------------------------------
# engine interface
# --------------------------------------------------------------------------

def worker_init(prop, tier, opts):
    core.import_target()
    return {"fs": ForkServer(None), "mode": "sim", "tmp": None}


def worker_fini(ctx):
    if ctx.get("tmp"):
        import shutil
        shutil.rmtree(ctx["tmp"], ignore_errors=True)


def _real_eligible(case):
    """Can a real OS process reproduce this case's environment?  Not when the
    *delivery* of stdin is part of the simulated environment."""
    if case.get("stdin_tty"):
        return False
    if case["source"] == "stdin" and (case.get("chunks") not in (None, [1 << 30]) or
                                      case.get("stdin_bufsize", 8192) != 8192):
        return False
    return True


def _run_real(ctx, case):
    import tempfile
    if not ctx.get("tmp"):
        ctx["tmp"] = tempfile.mkdtemp(prefix="verif_cli_")
    try:
        return run_case(dict(case, max_write=None), executor=_real_executor(ctx["tmp"]))
    except NoPty:
        return {"violations": [], "stats": Stats(), "log": [""], "steps": 0, "nopty": True}


def execute(ctx, case, log):
    """Simulated process first.  A violation seen in simulation is re-judged at
    once with a real OS process (when a real process can reproduce the case's
    environment); if it does not show there, the command reaches its environment
    past one of the simulated seams, and this worker judges with real processes
    from then on (slower, same oracle)."""
    if ctx["mode"] == "sim":
        res = ctx["fs"].run(run_case, case, timeout=400.0)
        if res["violations"]:
            probe = case
            if not _real_eligible(case):
                # the same invocation with plain delivery of stdin: does the violation
                # depend on the simulated delivery at all?
                probe = dict(case, chunks=[1 << 30], stdin_bufsize=8192, stdin_tty=False)
                pres = ctx["fs"].run(run_case, probe, timeout=400.0)
                if not ({v["class"] for v in res["violations"]} &
                        {v["class"] for v in pres["violations"]}):
                    probe = None          # delivery-specific: only the simulation can judge
            if probe is not None:
                real = _run_real(ctx, probe)
                if not real.get("nopty") and not (
                        {v["class"] for v in res["violations"]} &
                        {v["class"] for v in real["violations"]}):
                    ctx["mode"] = "real"
                    res = real if probe is case else \
                        {"violations": [], "stats": Stats(), "log": [""], "steps": 0}
                    res["stats"].inc("probe.seam_bypass_noticed")
    else:
        res = _run_real(ctx, case) if _real_eligible(case) else \
            {"violations": [], "stats": Stats(), "log": [""], "steps": 0}
        res["stats"].inc("probe.judged_with_real_process")
    log.lines.extend(res["log"][1:])
    return [Violation.from_json(v) for v in res["violations"]], res["stats"], res["steps"]


def is_nontrivial(case):
    return len(case["data"]) > 0 or case["source"] == "stdin"


def run_index(ctx, prop, tier, master, idx, opts):
    seed = core.derive_seed(master, prop, idx)
    rng = random.Random(seed)
    case = generate(rng, tier, opts)
    log = EventLog(seed)
    violations, stats, steps = execute(ctx, case, log)
    stats.inc("runs")
    if is_nontrivial(case):
        stats.add("nontrivial", core.short_hash(case))
    sample = None
    if idx < 200 and len(case["data"]) <= 80:
        sample = dict(case, run_index=idx)
    return core.RunOutcome(idx, seed, log.digest(), violations, case, stats, sample, steps)


def _fails(ctx, case, key):
    if core.min_expired():
        return False
    v, _, _ = execute(ctx, case, EventLog(0))
    return any(x.key() == key for x in v)


def minimise(ctx, case, violation):
    key = violation.key()
    case = dict(case)
    data = list(bytes.fromhex(case["data"]))
    data = core.ddmin(data, lambda d: _fails(ctx, dict(case, data=bytes(d).hex()), key),
                      max_tests=150)
    case["data"] = bytes(data).hex()
    for k, simple in (("preexisting", 0), ("stdin_tty", False), ("drawer", None), ("optimize", None), ("level", None), ("ascii", False),
                      ("eq", False), ("max_write", None), ("chunks", [1 << 30]),
                      ("stdin_bufsize", 8192), ("dashdash", False), ("argpos", "last"),
                      ("factory", None), ("output_stdout_tty", False), ("pass_args", True)):
        if k in case and case[k] != simple:
            t = dict(case)
            t[k] = simple
            if _fails(ctx, t, key):
                case = t
    if case["dest"] != "pipe":
        t = dict(case, dest="pipe")
        if _fails(ctx, t, key):
            case = t
    return case


class NoPty(Exception):
    """This sandbox hands out no pseudo-terminals: tty cases cannot be run as
    real processes (they are then simply not cross-checked)."""


def _real_process(case, dest, tmpdir, keep_file=False):
    """The same invocation as a real OS process with real pipes / a real pty /
    a real file.  -> (status, stdout bytes, file bytes or None[, stderr text])"""
    import subprocess
    argv = build_argv(case, dest)
    out_path = os.path.join(tmpdir, "qr.img")
    argv = [out_path if a == OUT_PATH else a.replace(OUT_PATH, out_path) for a in argv]
    data = bytes.fromhex(case["data"])
    env = dict(os.environ, PYTHONPATH=core.REPO_DIR, PYTHONDONTWRITEBYTECODE="1")
    cmd = [sys.executable, "-m", "qrcode.console_scripts"] + \
          [a.encode("utf-8", "surrogateescape") for a in argv]
    tty = dest == "tty" or (dest == "output" and case.get("output_stdout_tty", False))
    if tty:
        import pty
        try:
            master, slave = pty.openpty()
        except OSError as e:
            raise NoPty(str(e))
        p = subprocess.Popen(cmd, stdin=subprocess.PIPE, stdout=slave, stderr=subprocess.PIPE,
                             env=env, cwd=tmpdir)
        os.close(slave)
        p.stdin.write(data if case["source"] == "stdin" else b"")
        p.stdin.close()
        chunks = []
        while True:
            try:
                b = os.read(master, 65536)
            except OSError:
                break
            if not b:
                break
            chunks.append(b)
        p.wait(timeout=120)
        err = p.stderr.read().decode("utf-8", "replace")
        p.stderr.close()
        os.close(master)
        out = b"".join(chunks).replace(b"\r\n", b"\n")
    else:
        p = subprocess.run(cmd, input=data if case["source"] == "stdin" else b"",
                           capture_output=True, env=env, cwd=tmpdir, timeout=120)
        out = p.stdout
        err = p.stderr.decode("utf-8", "replace")
    if keep_file:
        return p.returncode, out, None, err
    fbytes = None
    if os.path.exists(out_path):
        with open(out_path, "rb") as f:
            fbytes = f.read()
        os.unlink(out_path)
    return p.returncode, out, fbytes


def _real_executor(tmpdir):
    """An executor with the interface of simulate_process that runs the real
    command as an OS process (used only to confirm a violation found in
    simulation, so that a refactoring which by-passes one of the simulated
    seams can never be reported as a violation)."""
    def run(case, dest):
        out_path = os.path.join(tmpdir, "qr.img")
        initial = None
        if case.get("preexisting"):
            initial = b"OLD CONTENT " * case["preexisting"]
            with open(out_path, "wb") as f:
                f.write(initial)
            os.utime(out_path, (1_000_000_000, 1_000_000_000))
        elif os.path.exists(out_path):
            os.unlink(out_path)
        st, out, fb, err = _real_process(case, dest, tmpdir, keep_file=True)
        touched = False
        fbytes = None
        if os.path.exists(out_path):
            with open(out_path, "rb") as f:
                fbytes = f.read()
            touched = initial is None or os.stat(out_path).st_mtime != 1_000_000_000 \
                or fbytes != initial
            os.unlink(out_path)
        if not touched:
            fbytes = None
        last = err.strip().splitlines()[-1] if err.strip() and st == 1 else None
        return {"status": st, "exc": last, "stdout": out, "stderr": err, "file": fbytes,
                "opens": [("open", OUT_PATH, "wb")] if touched else [],
                "stdin_consumed": len(bytes.fromhex(case["data"]))
                if case["source"] == "stdin" else 0,
                "stdin_eof": True, "short_reads": 0, "text_reads": 0, "short_writes": 0,
                "argv": build_argv(case, dest), "isatty_queries": []}
    return run


def confirm(ctx, case, violation):
    """Re-judge the (minimised) violating case with a *real* process.  -> None
    when the violation stands, else a description of the disagreement."""
    import tempfile
    if case.get("stdin_tty"):
        return None      # a real terminal would interpret control bytes; trust the simulation
    with tempfile.TemporaryDirectory(prefix="verif_cli_") as td:
        try:
            res = run_case(dict(case, max_write=None), executor=_real_executor(td))
        except NoPty:
            return None
        except Exception as e:  # noqa
            return f"real-process confirmation failed to run: {e!r}"
    classes = {v["class"] for v in res["violations"]}
    if violation.cls in classes:
        return None
    if case["source"] == "stdin" and (case.get("chunks") not in (None, [1 << 30]) or
                                      case.get("stdin_bufsize", 8192) != 8192):
        return None      # short reads / tiny reader buffers cannot be forced on a real pipe:
        #                  the simulated delivery decides
    return (f"the simulated process shows {violation.cls} but a real `python -m "
            f"qrcode.console_scripts` process with the same argv/stdin/destination does not "
            f"(real run: {sorted(classes) or 'no violation'}); a seam is being by-passed")


def _sim_only(case, ref=None):
    res = simulate_process(case, case["dest"])
    return {"status": res["status"], "stdout": res["stdout"], "file": res["file"]}


def post_batch(tier, master, opts):
    """Fidelity cross-check (not the deciding step): a few seeded cases are also
    run as real `python -m qrcode.console_scripts` processes with real pipes, a
    real pty and a real file; exit status and bytes must equal the in-process
    simulation.  A mismatch is a harness failure."""
    import tempfile
    n = 4 if tier == "quick" else 24
    core.import_target()
    fs = ForkServer(None)
    checked = 0
    kinds = {}
    with tempfile.TemporaryDirectory(prefix="verif_cli_") as td:
        i = 0
        while checked < n and i < 10 * n:
            rng = random.Random(core.derive_seed(master, "C17/fidelity", i))
            i += 1
            case = generate(rng, "quick", opts)
            if len(case["data"]) > 600 or case.get("stdin_tty"):
                continue
            case.pop("max_write", None)
            sim = fs.run(_sim_only, case, timeout=120)
            try:
                st, out, fb = _real_process(case, case["dest"], td)
            except NoPty:
                continue
            if (st, out, fb) != (sim["status"], sim["stdout"], sim["file"]):
                raise core.HarnessError(
                    "simulated process differs from the real one for case "
                    f"{case}: real status {st}, {len(out)} stdout bytes, file "
                    f"{None if fb is None else len(fb)}; simulated status {sim['status']}, "
                    f"{len(sim['stdout'])} stdout bytes, file "
                    f"{None if sim['file'] is None else len(sim['file'])}")
            checked += 1
            kinds[case["dest"]] = kinds.get(case["dest"], 0) + 1
    return {"traces_validated_against_impl": checked,
            "fidelity_cases_by_destination": kinds}


def coverage(merged, tier):
    st = merged["stats"]
    return {
        "evaluations": merged["runs"],
        "distinct_nontrivial": st.distinct("nontrivial"),
        "rule": ("one evaluation = one seeded invocation of the real console_scripts.main() in "
                 "a simulated process (argv bytes via surrogateescape or binary stdin with a "
                 "seeded short-read plan; stdout pipe, tty or --output into an in-memory file "
                 "system), its artefact decoded by the independent reader, plus a second "
                 "invocation with the other destination when an image was produced; "
                 "non-trivial = non-empty data or data read from stdin; distinct by hash of "
                 "the case"),
        "samples": merged["samples"][:4],
        "simulated_processes": st.count("processes"),
        "artefacts_decoded_by_kind": st.group("artefact."),
        "destinations": st.group("dest."),
        "sources": st.group("source."),
        "faults_fired": st.group("fault."),
        "probes": st.group("probe."),
        "symbol_versions_seen": sorted(st.sets.get("versions", ())),
        "distinct_interleavings_or_states": {
            "measure": "distinct (source, destination, factory class, drawer class, ascii, "
                       "level, optimize class, outcome) tuples",
            "count": st.distinct("tuples")},
        "simulated_time": "no clock in the code under test; logical steps = simulated processes",
        "components": {
            "real": ["qrcode.console_scripts.main and everything below it (optparse, factories, "
                     "Pillow, pypng, xml.etree)", "io.BufferedReader / io.BufferedWriter over the "
                     "simulated raw pipe ends (stdlib short-read/short-write loops run for real)"],
            "stub": ["sys.argv / args", "sys.stdin (SimStdin over SimRawIn with a short-read plan)",
                     "sys.stdout (SimStdout: text layer + buffer over SimRawOut; tty flag)",
                     "sys.stderr (StringIO)", "os.isatty (simulated fd table)",
                     "builtins.open / io.open for /simfs/* (SimFS)",
                     "process exit status (computed from SystemExit / uncaught exception)"]},
    }


ASSUMPTIONS = [
    "isoread (sim/isoread.py) is the trusted independent ISO 18004 reader: format BCH, "
    "function patterns, unmasking, zig-zag, Table 9 de-interleave, RS syndrome check, segment "
    "parser; validated at development time against all 160 version/level pairs",
    "Pillow's PNG decoder and the stdlib XML parser are trusted to read the artefacts",
    "box size 10 and border 4 (the command exposes neither)",
    "--ascii combined with --factory, and --ascii with --output, accept either an image of the "
    "factory or ASCII art (the statement does not rank the two requests)",
    "inside the three finder eyes the default square shape is accepted as well as the "
    "requested drawer's (the command sets the module drawer only)",
    "over-capacity input may fail with any exception type (the type is C03's business)",
    "argv data never contains NUL (the OS cannot pass it); data starting with '-' is passed "
    "after '--'",
]
