#!/bin/sh
# Replays every stored false-alarm case: each must NOT reproduce on the current tree.
cd "$(dirname "$0")/.."
rc=0
for f in regress/false_alarms/*.json; do
  p=$(basename "$f" | cut -d- -f1)
  if ./check "$p" --replay "$f" >/dev/null 2>&1; then echo "ok   $f"; else echo "FAIL $f (reproduces)"; rc=1; fi
done
exit $rc
