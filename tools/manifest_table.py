"""Checks beyond C20 are registered here as they are built."""

def extend(register, PENDING):
    PENDING.update({
        "C11": "claimed by design (DESIGN.md 3.2); engine histsim not yet committed",
        "C15": "claimed by design (DESIGN.md 3.4); engine histsim not yet committed",
        "C16": "claimed by design (DESIGN.md 3.3); engine histsim not yet committed",
        "C17": "claimed by design (DESIGN.md 4.2); engine clisim not yet committed",
        "C18": "claimed by design (DESIGN.md 3.5); engine histsim not yet committed",
        "C19": "claimed by design (DESIGN.md 4.1); engine threadsim not yet committed",
    })
