"""Shared core of the deterministic simulators.

One integer decides everything: run *i* of property *P* under master seed *M*
uses ``derive_seed(M, P, i)``; the engine turns that seed into an explicit,
JSON-serialisable *case* (operation list, fault list, configuration) and then
*executes the case*.  Replay executes a stored case and never touches a PRNG.

Nothing in this file reads a clock or draws from a PRNG inside a run; wall time
is measured by the batch driver only.
"""

from __future__ import annotations

import concurrent.futures as cf
import faulthandler
import gc
import hashlib
import json
import multiprocessing as mp
import os
import random
import sys
import time
import traceback

VERIF_DIR = os.path.dirname(os.path.dirname(os.path.abspath(__file__)))
REPO_DIR = os.environ.get("VERIF_REPO", "/repo")
EVIDENCE_DIR = os.environ.get("VERIF_EVIDENCE_DIR") or os.path.join(VERIF_DIR, "evidence")
REPLAY_DIR = os.environ.get("VERIF_REPLAY_DIR") or os.path.join(VERIF_DIR, "replays")
KNOWN_FINDINGS = os.path.join(VERIF_DIR, "known_findings.json")

EXIT_OK, EXIT_VIOLATION, EXIT_HARNESS = 0, 1, 2


# --------------------------------------------------------------------------
# seeds, logs
# --------------------------------------------------------------------------

def derive_seed(master: int, prop: str, index: int) -> int:
    h = hashlib.sha256(f"{master}/{prop}/{index}".encode()).digest()
    return int.from_bytes(h[:8], "big")


def rng_for(master: int, prop: str, index: int) -> random.Random:
    return random.Random(derive_seed(master, prop, index))


class EventLog:
    """Append-only event log of one run; its digest is the determinism witness."""

    __slots__ = ("lines", "keep")

    def __init__(self, seed, keep=True):
        self.lines = [f"seed={seed}"]
        self.keep = keep

    def ev(self, *parts):
        self.lines.append(" ".join(str(p) for p in parts))

    def digest(self) -> str:
        h = hashlib.sha256()
        for line in self.lines:
            h.update(line.encode("utf-8", "backslashreplace"))
            h.update(b"\n")
        return h.hexdigest()


def short_hash(obj) -> str:
    """Stable short digest of a JSON-able / repr-able object."""
    if isinstance(obj, (bytes, bytearray)):
        data = bytes(obj)
    elif isinstance(obj, str):
        data = obj.encode("utf-8", "surrogatepass")
    else:
        data = json.dumps(obj, sort_keys=True, default=repr).encode()
    return hashlib.sha256(data).hexdigest()[:16]


# --------------------------------------------------------------------------
# payload encoding (cases are plain JSON)
# --------------------------------------------------------------------------

def enc_payload(p):
    if isinstance(p, bytes):
        return ["b", p.hex()]
    if isinstance(p, str):
        return ["s", p]
    if isinstance(p, int):
        return ["i", p]
    raise TypeError(type(p))


def dec_payload(e):
    kind, v = e
    if kind == "b":
        return bytes.fromhex(v)
    if kind == "s":
        return v
    if kind == "i":
        return int(v)
    raise ValueError(e)


# --------------------------------------------------------------------------
# violations
# --------------------------------------------------------------------------

class Violation:
    """(property, class, fingerprint, message).  `cls` is a short stable tag;
    `fingerprint` names the failing call shape and is what known findings match."""

    __slots__ = ("prop", "cls", "fingerprint", "msg")

    def __init__(self, prop, cls, msg, fingerprint=""):
        self.prop, self.cls, self.msg, self.fingerprint = prop, cls, msg, fingerprint

    def key(self):
        return (self.prop, self.cls)

    def to_json(self):
        return {"property": self.prop, "class": self.cls,
                "fingerprint": self.fingerprint, "message": self.msg}

    @staticmethod
    def from_json(d):
        return Violation(d["property"], d["class"], d["message"], d.get("fingerprint", ""))

    def __repr__(self):
        return f"Violation({self.prop} {self.cls} [{self.fingerprint}] {self.msg})"


class HarnessError(Exception):
    """The simulator itself misbehaved (never a pass, never a VIOLATION)."""


# --------------------------------------------------------------------------
# statistics that merge across workers
# --------------------------------------------------------------------------

class Stats:
    def __init__(self):
        self.counters = {}
        self.sets = {}

    def inc(self, name, n=1):
        self.counters[name] = self.counters.get(name, 0) + n

    def add(self, name, item):
        self.sets.setdefault(name, set()).add(item)

    def merge(self, other: "Stats"):
        for k, v in other.counters.items():
            self.counters[k] = self.counters.get(k, 0) + v
        for k, v in other.sets.items():
            self.sets.setdefault(k, set()).update(v)

    def count(self, name):
        return self.counters.get(name, 0)

    def distinct(self, name):
        return len(self.sets.get(name, ()))

    def group(self, prefix):
        return {k[len(prefix):]: v for k, v in sorted(self.counters.items())
                if k.startswith(prefix)}


# --------------------------------------------------------------------------
# ddmin
# --------------------------------------------------------------------------

_MIN_DEADLINE = [None]


def set_min_budget(seconds):
    """Wall-clock budget for one minimisation (all its passes together)."""
    _MIN_DEADLINE[0] = None if seconds is None else time.monotonic() + seconds


def min_expired():
    d = _MIN_DEADLINE[0]
    return d is not None and time.monotonic() > d


def ddmin(items, test, max_tests=400, budget_s=90.0):
    """Classic delta debugging on a list.  `test(sublist)` -> True when the
    failure persists.  Returns a 1-minimal sublist (subject to max_tests and a
    wall-clock budget: minimisation quality may depend on machine speed, the
    verdict and the replay never do)."""
    items = list(items)
    n = 2
    tests = 0
    t_end = time.monotonic() + budget_s
    while len(items) >= 2 and tests < max_tests and time.monotonic() < t_end \
            and not min_expired():
        chunk = max(1, len(items) // n)
        subsets = [items[i:i + chunk] for i in range(0, len(items), chunk)]
        reduced = False
        for i in range(len(subsets)):
            complement = [x for j, s in enumerate(subsets) if j != i for x in s]
            tests += 1
            if min_expired():
                break
            if test(complement):
                items = complement
                n = max(n - 1, 2)
                reduced = True
                break
            if tests >= max_tests:
                break
        if not reduced:
            if n >= len(items):
                break
            n = min(len(items), n * 2)
    if len(items) == 1 and tests < max_tests:
        if test([]):
            return []
    return items


# --------------------------------------------------------------------------
# known findings
# --------------------------------------------------------------------------

def load_known_findings():
    try:
        with open(KNOWN_FINDINGS) as f:
            data = json.load(f)
    except FileNotFoundError:
        return []
    return [e for e in data.get("findings", []) if e.get("status") == "known"]


def match_known(v: Violation, known):
    for e in known:
        if e["property"] == v.prop and e["class"] == v.cls and \
                e["fingerprint"] == v.fingerprint:
            return e
    return None


# --------------------------------------------------------------------------
# environment guard
# --------------------------------------------------------------------------

def ensure_env():
    """Re-exec with a fixed hash seed and no bytecode writing; assert that the
    library under test is the working tree."""
    want = os.environ.get("VERIF_HASHSEED", "0")
    if os.environ.get("PYTHONHASHSEED") != want or \
            os.environ.get("PYTHONDONTWRITEBYTECODE") != "1":
        env = dict(os.environ)
        env["PYTHONHASHSEED"] = want
        env["PYTHONDONTWRITEBYTECODE"] = "1"
        os.execve(sys.executable, [sys.executable] + sys.argv, env)


def import_target():
    """Import every qrcode module up front (no import lock is ever taken while a
    simulated thread is parked) and check it is the working tree."""
    if REPO_DIR not in sys.path:
        sys.path.insert(0, REPO_DIR)
    import qrcode  # noqa
    root = os.path.realpath(os.path.dirname(qrcode.__file__))
    if not root.startswith(os.path.realpath(REPO_DIR) + os.sep):
        raise HarnessError(f"qrcode imported from {root}, expected under {REPO_DIR}")
    import qrcode.main, qrcode.util, qrcode.base, qrcode.LUT, qrcode.constants  # noqa
    import qrcode.exceptions, qrcode.console_scripts, qrcode.release  # noqa
    import qrcode.image.base, qrcode.image.pil, qrcode.image.pure  # noqa
    import qrcode.image.svg, qrcode.image.styledpil  # noqa
    import qrcode.image.styles.colormasks  # noqa
    import qrcode.image.styles.moduledrawers.pil  # noqa
    import qrcode.image.styles.moduledrawers.svg  # noqa
    import decimal, re, xml.etree.ElementTree, PIL.Image, PIL.ImageDraw, png  # noqa
    import PIL.PngImagePlugin  # noqa
    return qrcode


# --------------------------------------------------------------------------
# batch driver
# --------------------------------------------------------------------------

class RunOutcome:
    """What one run hands back to the driver (picklable, small)."""

    __slots__ = ("index", "seed", "digest", "violations", "case", "stats",
                 "sample", "steps")

    def __init__(self, index, seed, digest, violations, case, stats, sample, steps):
        self.index, self.seed, self.digest = index, seed, digest
        self.violations, self.case, self.stats = violations, case, stats
        self.sample, self.steps = sample, steps


_WORKER = {}


def _worker_main(engine_name, prop, tier, master, worker_id, nworkers, start_index,
                 max_runs, deadline, watchdog_s, opts):
    """Runs in a forked child: indices start+worker_id, +nworkers, ... until the
    deadline or max_runs.  Returns aggregated stats and the first violations."""
    import importlib
    engine = importlib.import_module(f"sim.{engine_name}")
    ctx = engine.worker_init(prop, tier, opts)
    stats = Stats()
    outcomes = []       # violating runs only (bounded)
    samples = []
    digests = {}
    n = 0
    steps = 0
    crashes = []
    idx = start_index + worker_id
    gc.disable()
    try:
        while n < max_runs and time.monotonic() < deadline:
            faulthandler.dump_traceback_later(watchdog_s, exit=True)
            try:
                out = engine.run_index(ctx, prop, tier, master, idx, opts)
            except HarnessError as e:
                # one run broke the simulator (never a pass: reported as exit 2 unless
                # another run of this batch pins down a proper violation)
                faulthandler.cancel_dump_traceback_later()
                crashes.append((idx, str(e)[-1500:]))
                n += 1
                idx += nworkers
                if len(crashes) > 20:
                    break
                continue
            faulthandler.cancel_dump_traceback_later()
            stats.merge(out.stats)
            steps += out.steps
            digests[idx] = out.digest
            if out.sample is not None and len(samples) < 3:
                samples.append(out.sample)
            if out.violations and len(outcomes) < 4:
                out.stats = None
                outcomes.append(out)
            n += 1
            idx += nworkers
            if n % 16 == 0:
                gc.collect()
    finally:
        faulthandler.cancel_dump_traceback_later()
        engine.worker_fini(ctx)
    return {"runs": n, "stats": stats, "violating": outcomes, "samples": samples,
            "digests": digests, "steps": steps, "crashes": crashes,
            "first": start_index + worker_id, "last": idx - nworkers}


def run_batch(engine_name, prop, tier, master, budget_s, max_runs, nworkers,
              watchdog_s=120, opts=None, start_index=0):
    """Fan a batch over `nworkers` forked processes.  Returns merged results.
    A dead or hung worker raises HarnessError (never a pass)."""
    opts = opts or {}
    deadline = time.monotonic() + budget_s
    per_worker = (max_runs + nworkers - 1) // nworkers
    ctx = mp.get_context("fork")
    results = []
    with cf.ProcessPoolExecutor(max_workers=nworkers, mp_context=ctx) as pool:
        futs = [pool.submit(_worker_main, engine_name, prop, tier, master, w, nworkers,
                            start_index, per_worker, deadline, watchdog_s, opts)
                for w in range(nworkers)]
        try:
            for f in futs:
                results.append(f.result(timeout=budget_s + watchdog_s + 60))
        except cf.process.BrokenProcessPool as e:
            raise HarnessError(f"worker died (watchdog or crash): {e}") from e
        except cf.TimeoutError as e:
            for p in list(getattr(pool, "_processes", {}).values()):
                p.kill()
            raise HarnessError("worker batch timed out") from e
    merged = {"runs": 0, "stats": Stats(), "violating": [], "samples": [], "crashes": [],
              "digests": {}, "steps": 0, "first": start_index, "last": start_index}
    for r in results:
        merged["runs"] += r["runs"]
        merged["stats"].merge(r["stats"])
        merged["violating"].extend(r["violating"])
        merged["crashes"].extend(r["crashes"])
        merged["samples"].extend(r["samples"])
        merged["digests"].update(r["digests"])
        merged["steps"] += r["steps"]
        if r["runs"]:
            merged["last"] = max(merged["last"], r["last"])
    merged["violating"].sort(key=lambda o: o.index)
    return merged


# --------------------------------------------------------------------------
# evidence
# --------------------------------------------------------------------------

def write_evidence(prop, tier, master, coverage, wall_s, violations, assumptions,
                   level="exploration"):
    os.makedirs(EVIDENCE_DIR, exist_ok=True)
    doc = {
        "property_id": prop,
        "tier": tier,
        "seed": int(master),
        "level": level,
        "coverage": coverage,
        "assumptions": assumptions,
        "wall_s": round(wall_s, 2),
        "violations": int(violations),
    }
    path = os.path.join(EVIDENCE_DIR, f"{prop}.json")
    tmp = path + ".tmp"
    with open(tmp, "w") as f:
        json.dump(doc, f, indent=1, sort_keys=True, default=repr)
        f.write("\n")
    os.replace(tmp, path)
    return path


def write_replay(prop, seed, case, violation: Violation, extra=None):
    os.makedirs(REPLAY_DIR, exist_ok=True)
    path = os.path.join(REPLAY_DIR, f"{prop}-{seed}-{short_hash(violation.cls)[:6]}.json")
    doc = {"property": prop, "seed": seed, "violation": violation.to_json(),
           "case": case}
    if extra:
        doc.update(extra)
    with open(path, "w") as f:
        json.dump(doc, f, indent=1, sort_keys=True)
        f.write("\n")
    return path


def format_exc():
    return traceback.format_exc()
