#!/bin/sh
# Full sensitivity / silence sweep at the current commit (background job; not a registered command).
cd "$(dirname "$0")/.."
OUT=${1:-/root/.vp/out}
mkdir -p "$OUT"
ls mutants/*.diff | grep -v c19_ | xargs tools/mutation_audit.py --no-tests --budget-s 25 --json $OUT/final_mutants_a.json
ls mutants/c19_*.diff | xargs tools/mutation_audit.py --no-tests --budget-s 60 --json $OUT/final_mutants_b.json
ls -d seeded/*/ | grep -v C19 | sed 's,$,patch.diff,' | xargs tools/mutation_audit.py --no-tests --budget-s 40 --json $OUT/final_seeded_a.json
ls -d seeded/C19*/ seeded/X2-3/ | sed 's,$,patch.diff,' | xargs tools/mutation_audit.py --no-tests --budget-s 90 --json $OUT/final_seeded_b.json
tools/mutation_audit.py --no-tests --budget-s 20 --json $OUT/final_benign_a.json benign
for d in benign/agents/R1-*; do tools/mutation_audit.py --no-tests --budget-s 20 --props C11,C15,C16,C18,C19 $d/patch.diff; done
for d in benign/agents/R2-*; do tools/mutation_audit.py --no-tests --budget-s 20 --props C17 $d/patch.diff; done
for d in benign/agents/R3-*; do tools/mutation_audit.py --no-tests --budget-s 10 --props C20 $d/patch.diff; done
for d in benign/agents/R4-*; do tools/mutation_audit.py --no-tests --budget-s 30 --props C19,C11 $d/patch.diff; done
